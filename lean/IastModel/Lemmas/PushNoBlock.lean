import IastModel.Lemmas.BlockRewrite2
namespace IastModel
open Node

/-! ### what is pushed to a hook's argument list contains no block statement -/

@[simp] theorem noBlk_lit (k v r : String) (sp : Span) : noBlk (.lit k v r sp) = true := by rw [noBlk_eq]; rfl
@[simp] theorem noBlk_ident (n : Name) (sp : Span) : noBlk (.ident n sp) = true := by rw [noBlk_eq]; rfl
@[simp] theorem noBlk_pname (n : String) (sp : Span) : noBlk (.pname n sp) = true := by rw [noBlk_eq]; rfl
@[simp] theorem noBlk_arg (s : Option Span) (e : Node) : noBlk (.arg s e) = noBlk e := by rw [noBlk_eq]; simp [isBlockNode, kids]
@[simp] theorem noBlk_bin (op : String) (l r : Node) (sp : Span) : noBlk (.bin op l r sp) = (noBlk l && noBlk r) := by
  rw [noBlk_eq]; simp [isBlockNode, kids]
@[simp] theorem noBlk_unary (op : String) (a : Node) (sp : Span) : noBlk (.unary op a sp) = noBlk a := by rw [noBlk_eq]; simp [isBlockNode, kids]
@[simp] theorem noBlk_member (o p : Node) (sp : Span) : noBlk (.member o p sp) = (noBlk o && noBlk p) := by
  rw [noBlk_eq]; simp [isBlockNode, kids]
@[simp] theorem noBlk_tempIdent (n : Nat) : noBlk (tempIdent n) = true := by simp [tempIdent]
@[simp] theorem noBlk_voidZero : noBlk voidZero = true := by simp [voidZero]
@[simp] theorem noBlk_exprOrSpread (e : Node) (k : IdentKind) : noBlk (exprOrSpread e k) = noBlk e := by
  cases k <;> simp [exprOrSpread]
theorem noBlk_ddCallee (m : String) (sp : Span) : noBlk (ddCallee m sp) = true := by simp [ddCallee]

theorem isLiteralSum_noBlk : ∀ e : Node, isLiteralSum e = true → noBlk e = true := by
  intro e
  induction e using Node.rec (motive_2 := fun _ => True) with
  | lit => intro _; simp
  | bin op l r sp ihl ihr =>
    intro h
    simp [isLiteralSum] at h
    simp [ihl h.1.2, ihr h.2]
  | nil => trivial
  | cons => trivial
  | _ => intro h; simp [isLiteralSum] at h

theorem isLit_noBlk {e : Node} (h : e.isLit = true) : noBlk e = true := by
  cases e <;> simp_all [Node.isLit]

theorem replaceDefault_nb (e : Node) (asg args : List Node) (sp : Span) (k : IdentKind) (s : St) :
    noBlk (replaceDefault e asg args sp k s).1.1 = true := by
  rcases (replaceDefault_push e asg args sp k s).2 with ⟨h2, hl⟩ | ⟨n, h2⟩
  · rw [h2]; exact isLit_noBlk hl
  · rw [h2]; simp

theorem noBlkL_pushOf {e : Node} (k : IdentKind) (h : nlSum e = false → noBlk e = true) : noBlkL (pushOf e k) = true := by
  unfold pushOf
  by_cases hs : nlSum e = true
  · simp [hs]
  · simp only [hs, Bool.false_eq_true, if_false, noBlkL_cons, noBlkL_nil, Bool.and_true, noBlk_exprOrSpread]
    exact h (by simpa using hs)

theorem replaceExprNoExpand_nb (e : Node) (mode : IdentMode) (asg args : List Node) (sp : Span) (k : IdentKind) (s : St) :
    noBlkL (pushOf (replaceExprNoExpand e mode asg args sp k s).1.1 k) = true := by
  apply noBlkL_pushOf
  cases e with
  | lit kk v r lsp => intro _; simp [replaceExprNoExpand, run_pure]
  | ident nm isp =>
    cases mode with
    | replace => intro _; simp only [replaceExprNoExpand]; exact replaceDefault_nb ..
    | keep => intro _; simp [replaceExprNoExpand, run_pure]
  | bin op l r bsp =>
    simp only [replaceExprNoExpand]
    by_cases hop : (op != "+") = true
    · simp only [hop, if_true]; intro _; exact replaceDefault_nb ..
    · simp only [hop, Bool.false_eq_true, if_false]
      have hop' : op = "+" := by simpa using hop
      subst hop'
      by_cases hls : isLiteralSum (.bin "+" l r bsp) = true
      · simp only [hls, if_true, run_pure]; intro _; exact isLiteralSum_noBlk _ hls
      · simp only [hls, Bool.false_eq_true, if_false, run_pure]
        intro h; simp [nlSum, isPlusSum, hls] at h
  | _ => intro _; simp only [replaceExprNoExpand]; exact replaceDefault_nb ..

theorem replaceElem_nb (a : Node) (mode : IdentMode) (asg args : List Node) (sp : Span) (s : St) :
    noBlkL (pushOfElem (replaceElem a mode asg args sp s).1.1) = true := by
  cases a with
  | arg spread e =>
    simp only [replaceElem, replaceArgNoExpand, run_bind, run_pure, pushOfElem]
    exact replaceExprNoExpand_nb e mode asg args sp _ s
  | _ => simp [replaceElem, run_pure, pushOfElem]

theorem noBlkL_flatten {α} (f : α → List Node) (xs : List α) (h : ∀ x ∈ xs, noBlkL (f x) = true) :
    noBlkL (xs.map f).flatten = true := by
  induction xs with
  | nil => rfl
  | cons x xs ih =>
    simp only [List.map_cons, List.flatten_cons, noBlkL_append, Bool.and_eq_true]
    exact ⟨h x (by simp), ih (fun y hy => h y (by simp [hy]))⟩

theorem replaceElems_nb (mode : IdentMode) (sp : Span) : ∀ (xs asg args : List Node) (s : St),
    noBlkL ((replaceElems mode sp xs asg args s).1.1.map pushOfElem).flatten = true := by
  intro xs
  induction xs with
  | nil => intro asg args s; simp [replaceElems, run_pure]
  | cons x xs ih =>
    intro asg args s
    simp only [replaceElems, run_bind, run_pure, List.map_cons, List.flatten_cons, noBlkL_append, Bool.and_eq_true]
    exact ⟨replaceElem_nb x mode asg args sp s, ih _ _ _⟩

theorem replaceExpr_nb (e : Node) (mode : IdentMode) (asg args : List Node) (sp : Span) (k : IdentKind) (expand : Bool) (s : St) :
    noBlkL (pushOfX (replaceExpr e mode asg args sp k expand s).1.1 k expand) = true := by
  unfold replaceExpr
  split
  · rename_i elems asp
    simp only [run_bind, run_pure, pushOfX]
    exact replaceElems_nb mode sp elems asg args s
  · have h1 := replaceExprNoExpand_nb e mode asg args sp k s
    have h2 := (replaceExprNoExpand_push e mode asg args sp k s).2
    generalize (replaceExprNoExpand e mode asg args sp k s).1.1 = e' at h1 h2
    unfold pushOfX
    split
    · simp [isArrayNode] at h2
    · exact h1

theorem replaceArg_nb (a : Node) (mode : IdentMode) (asg args : List Node) (sp : Span) (expand : Bool) (s : St) :
    noBlkL (pushOfArgX expand (replaceArg a mode asg args sp expand s).1.1) = true := by
  cases a with
  | arg spread e =>
    simp only [replaceArg, run_bind, run_pure, pushOfArgX]
    exact replaceExpr_nb e mode asg args sp _ expand s
  | _ => simp [replaceArg, run_pure, pushOfArgX]

theorem replaceArgs_nb (mode : IdentMode) (sp : Span) (expand : Bool) : ∀ (xs asg args : List Node) (s : St),
    noBlkL ((replaceArgs mode sp expand xs asg args s).1.1.map (pushOfArgX expand)).flatten = true := by
  intro xs
  induction xs with
  | nil => intro asg args s; simp [replaceArgs, run_pure]
  | cons x xs ih =>
    intro asg args s
    simp only [replaceArgs, run_bind, run_pure, List.map_cons, List.flatten_cons, noBlkL_append, Bool.and_eq_true]
    exact ⟨replaceArg_nb x mode asg args sp expand s, ih _ _ _⟩

theorem replaceTplExprs_nb : ∀ (xs asg args : List Node) (s : St),
    noBlkL ((replaceTplExprs xs asg args s).1.1.map (fun e => pushOf e .expr)).flatten = true := by
  intro xs
  induction xs with
  | nil => intro asg args s; simp [replaceTplExprs, run_pure]
  | cons x xs ih =>
    intro asg args s
    simp only [replaceTplExprs, run_bind, run_pure, List.map_cons, List.flatten_cons, noBlkL_append, Bool.and_eq_true]
    refine ⟨?_, ih _ _ _⟩
    rw [replaceExpr_false]
    exact replaceExprNoExpand_nb ..

end IastModel

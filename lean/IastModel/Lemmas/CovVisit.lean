import IastModel.Lemmas.CovLemmas
import IastModel.Lemmas.NotBin
import IastModel.Lemmas.CovAssign
import IastModel.Lemmas.CovRecv
import IastModel.Lemmas.ErOc
namespace IastModel
open Node

theorem isBin_props {n : Node} (h : isBinNode n = false) (hl : leaf n = false) : isPlusSum n = false ∧ isLiteralSum n = false := by
  cases n <;> simp_all [isBinNode, leaf, Node.isLit, Node.isIdent, isPlusSum, isLiteralSum]

theorem outOfFuel_fo (s : St) : (outOfFuel s).2.fuelOut = true := rfl

/-- the `+` transform goes ahead only when some operand is not a sum of literals -/
theorem toDdBinary_some_not_literal (cfg : Config) (l r : Node) (sp : Span) (s : St)
    (hl : isLiteralSum l = true) (hr : isLiteralSum r = true) :
    ∀ e', (toDdBinary cfg (.bin "+" l r sp) s).1 = some e' → False := by
  intro e' he
  have pl : ∀ (e : Node) (mode : IdentMode) (asg args : List Node) (k : IdentKind) (s : St), isLiteralSum e = true →
      replaceExprNoExpand e mode asg args sp k s = ((e, asg, args ++ [exprOrSpread e k]), s) := by
    intro e mode asg args k s h
    cases e with
    | lit kk v rr lsp => rfl
    | bin op a b bsp =>
      have hop : op = "+" := by simp [isLiteralSum] at h; exact h.1.1
      subst hop
      simp [replaceExprNoExpand, h, run_pure]
    | _ => simp [isLiteralSum] at h
  simp only [toDdBinary, run_bind, replaceExpr_false, pl l _ _ _ _ _ hl, pl r _ _ _ _ _ hr] at he
  simp [mustReplaceBinary, exprOrSpread, argExpr, hl, hr, run_pure] at he

/-- **the operation visitor instruments every required `+` and template occurrence it reaches**, unless it
    runs out of fuel: for the site `(d, sp0)`, at least as many hook calls with that name and span come
    back as the specification requires in the visited positions of `n` -/
theorem visit_cover (cfg : Config) (ok : String → Bool) (hcfg : CfgOk ok cfg) (d : String) (sp0 : Span) :
    ∀ (f : Nat) (root : Bool) (n : Node) (s : St), ns n = 0 → targetsOk n = true → StOk s →
      (visit cfg f root n s).2.fuelOut = false →
      R cfg d sp0 n ≤ cq (qAt d sp0) (visit cfg f root n s).1 ∧ SK cfg n (visit cfg f root n s).1 := by
  intro f
  induction f with
  | zero =>
    intro root n s _ _ _ hfo
    simp only [visit, run_bind, run_pure] at hfo
    rw [outOfFuel_fo] at hfo; cases hfo
  | succ f ih =>
    intro root n s h0 ht hs hfo
    have hv : ∀ r, VHyp ok (visit cfg f r) := fun r k s h0 ht hs => visit_spec ok cfg hcfg f r k s h0 ht hs
    have hkids : ∀ (r : Bool) (ks : List Node) (s : St), nsL ks = 0 → (∀ k ∈ ks, targetsOk k = true) → StOk s →
        (mapM' (visit cfg f r) ks s).2.fuelOut = false →
        RL cfg d sp0 ks ≤ cqL (qAt d sp0) (mapM' (visit cfg f r) ks s).1 := by
      intro r ks
      induction ks with
      | nil => intro s _ _ _ _; exact Nat.le_refl _
      | cons k ks ihk =>
        intro s hz htk hs hfo
        simp only [nsL_cons] at hz
        simp only [mapM', run_bind, run_pure] at hfo
        simp only [mapM', run_bind, run_pure, RL_cons, cqL_cons]
        have hsp := visit_spec ok cfg hcfg f r k s (by omega) (htk k (by simp)) hs
        have hs1 := hsp.2.1.stOk hs
        have hrest := mapVisit_spec ok (visit cfg f r) (hv r) ks (visit cfg f r k s).2 (by omega) (fun x hx => htk x (by simp [hx])) hs1
        have hfo1 : (visit cfg f r k s).2.fuelOut = false := hrest.2.1.fo hfo
        have hk1 := (ih r k s (by omega) (htk k (by simp)) hs hfo1).1
        have hk2 := ihk _ (by omega) (fun x hx => htk x (by simp [hx])) hs1 hfo
        omega
    have hgen : ∀ (r : Bool) (n : Node) (s : St), ns n = 0 → targetsOk n = true → StOk s →
        (mapKidsM mapM' (visit cfg f r) n s).2.fuelOut = false →
        RL cfg d sp0 n.kids ≤ cq (qAt d sp0) (mapKidsM mapM' (visit cfg f r) n s).1 := by
      intro r n s h0 ht hs hfo
      simp only [mapKidsM, run_bind, run_pure] at hfo ⊢
      have hl : (mapM' (visit cfg f r) n.kids s).1.length = n.kids.length := by
        have := mapVisit_spec ok (visit cfg f r) (hv r) n.kids s (nsL_kids_of_ns0 h0) (targetsOk_kids ht) hs
        exact (Forall2.length_eq this.2.2).symm
      rw [cq_eq' _ (n.withKids _), Node.kids_withKids n _ hl]
      have := hkids r n.kids s (nsL_kids_of_ns0 h0) (targetsOk_kids ht) hs hfo
      omega
    -- a node that is rebuilt from its visited children and is neither a `+`/template nor skipped
    have hplain : ∀ (n : Node) (s : St), ns n = 0 → targetsOk n = true → StOk s →
        (mapKidsM mapM' (visit cfg f root) n s).2.fuelOut = false →
        (∀ op l r sp, n ≠ .bin op l r sp) → reqOwn cfg d sp0 n = 0 → visitedKids cfg n = n.kids →
        R cfg d sp0 n ≤ cq (qAt d sp0) (mapKidsM mapM' (visit cfg f root) n s).1 ∧
          SK cfg n (mapKidsM mapM' (visit cfg f root) n s).1 := by
      intro n s h0 ht hs hfo hb hr hvk
      refine ⟨?_, ?_⟩
      · rw [R_eq, hr, hvk, Nat.zero_add]; exact hgen root n s h0 ht hs hfo
      · simp only [mapKidsM, run_bind, run_pure]; exact SK.of_not_bin n _ hb
    cases n with
    | ident nm sp =>
      simp only [visit, run_bind, run_pure]
      exact ⟨by rw [R_eq]; simp [reqOwn, visitedKids], SK.refl cfg _ (by intro h; cases h)⟩
    | block ss sp =>
      simp only [visit, run_pure]
      exact ⟨by rw [R_eq]; simp [reqOwn, visitedKids], SK.refl cfg _ (by intro h; cases h)⟩
    | arrow ps b at' sp =>
      simp only [visit, run_pure]
      refine ⟨by rw [R_eq]; simp [reqOwn, visitedKids], ?_⟩
      cases b <;> exact ⟨rfl, by intro _ h; cases h⟩
    | optChain o b sp =>
      have hR : R cfg d sp0 (.optChain o b sp) ≤ cq (qAt d sp0) (visit cfg (f + 1) root (.optChain o b sp) s).1 := by
        by_cases hno : noOpt cfg (.optChain o b sp) = true
        · -- a chain that is not lowered is handed back as it is, and walked through
          simp only [visit, run_bind] at hfo ⊢
          have hid := toDdCond_id cfg f (.optChain o b sp) s hno
          generalize toDdCond cfg f (.optChain o b sp) s = C at hid hfo
          obtain ⟨⟨e', res⟩, s1⟩ := C
          obtain ⟨hid1, hid2⟩ := hid
          simp only [Prod.mk.injEq] at hid1
          obtain ⟨rfl, rfl⟩ := hid1
          simp only [Option.getD_none] at hfo ⊢
          have hs1 : StOk s1 := by intro hc; exact hs (by rw [← hid2.2.2.2.1]; exact hc)
          have hfo1 := (finish_TS root _ _).fo hfo
          rw [finish_fst]
          have := hgen false (.optChain o b sp) s1 h0 ht hs1 hfo1
          rw [R_eq]
          simp only [reqOwn, visitedKids, hno, if_true, Nat.zero_add]
          simpa [kids] using this
        · rw [R_eq]; simp [reqOwn, visitedKids, hno]
      simp only [visit, run_bind]
      refine ⟨by simpa only [visit, run_bind] using hR, ?_⟩
      have hl := toDdCond_leaf cfg f (.optChain o b sp) s rfl
      have hn := toDdCond_nbin cfg f (.optChain o b sp) s rfl
      generalize toDdCond cfg f (.optChain o b sp) s = C at hl hn
      obtain ⟨⟨e', res⟩, s1⟩ := C
      simp only at hl hn ⊢
      rw [finish_fst]
      have h1 : isBinNode (res.getD e') = false := by
        cases res with
        | none => exact hn.1
        | some r => exact hn.2 r rfl
      have h2 : leaf (res.getD e') = false := by
        cases res with
        | none => exact hl.1
        | some r => exact hl.2 r rfl
      simp only [mapKidsM, run_bind, run_pure]
      have hb : ∀ op l r sp, res.getD e' ≠ .bin op l r sp := by
        intro op l r sp h; rw [h] at h1; cases h1
      obtain ⟨k1, k2⟩ := isLiteralSum_withKids_other (res.getD e') (mapM' (visit cfg f false) (res.getD e').kids s1).1 hb
      have := (isBin_props h1 h2).2
      exact ⟨by rw [k1, this]; rfl, by intro _ h; rw [k2] at h; cases h⟩
    | unary op a sp =>
      simp only [visit]
      split
      · rename_i hd
        simp only [run_pure]
        exact ⟨by rw [R_eq]; simp [reqOwn, visitedKids, hd], SK.refl cfg _ (by intro h; cases h)⟩
      · rename_i hd
        simp only [visit] at hfo
        simp only [hd, Bool.false_eq_true, if_false] at hfo
        exact hplain _ s h0 ht hs hfo (by intro _ _ _ _ h; cases h) rfl (by simp [visitedKids, hd, kids])
    | tpl es qs sp =>
      simp only [visit] at hfo ⊢
      by_cases hte : cfg.tplEnabled = true
      · simp only [hte, if_true] at hfo ⊢
        by_cases hc : (!es.isEmpty && es.all (fun e => !e.isLit)) = true
        · simp only [hc, if_true, run_bind] at hfo ⊢
          obtain ⟨ks', h1, hl, g, e, p⟩ := mapKids_spec' ok _ (hv false) (.tpl es qs sp) s h0 ht hs
          have hgen1 := hgen false (.tpl es qs sp) s h0 ht hs
          generalize mapKidsM mapM' (visit cfg f false) (.tpl es qs sp) s = K at h1 hgen1 e hfo
          obtain ⟨n1, s1⟩ := K
          simp only at h1 hgen1 e hfo ⊢
          simp only [withKids] at h1
          subst h1
          obtain ⟨g1, g2⟩ := goodL_take_drop ok true ks' es.length g
          have hsp := toDdTpl_spec ok true cfg (ks'.take es.length) (ks'.drop es.length) sp s1 g1 g2 (hcfg.2.1 hte)
          have h2 := toDdTpl_Q (qAt d sp0) cfg (ks'.take es.length) (ks'.drop es.length) sp s1
          have h3 := toDdTpl_mirror cfg (ks'.take es.length) (ks'.drop es.length) sp s1
          have hsome := C04some cfg (ks'.take es.length) (ks'.drop es.length) sp s1
          generalize toDdTpl cfg (.tpl (ks'.take es.length) (ks'.drop es.length) sp) s1 = X at h2 h3 hsp hsome hfo
          obtain ⟨res, s2⟩ := X
          obtain ⟨t2, _⟩ := hsp
          simp only at h2 h3 t2 hsome hfo ⊢
          have e2 : StOk s2 := ((e.trans (Eff.of_TS t2))).stOk hs
          have hu := updateStatus_statusOf res (some Generated.tplTag) s2 e2
          have hfo3 : (updateStatus (statusOf res) (some Generated.tplTag) s2).2.fuelOut = false :=
            (finish_TS root _ _).fo hfo
          have hfo1 : s1.fuelOut = false := t2.fo (hu.fo hfo3)
          rw [finish_fst]
          cases res with
          | none => simp at hsome
          | some e' =>
            simp only [Option.getD_some]
            obtain ⟨first, args, asg, he', _⟩ := h3 e' rfl
            have hq := h2 e' rfl
            rw [lastOf_eq_of_ddParen he', qAt_ddCall] at hq
            refine ⟨?_, ?_⟩
            · rw [R_eq, hq]
              have hvk : visitedKids cfg (.tpl es qs sp) = (Node.tpl es qs sp).kids := by
                simp [visitedKids, hte, hc, kids]
              rw [hvk]
              have hk := hgen1 hfo1
              have : cq (qAt d sp0) (.tpl (ks'.take es.length) (ks'.drop es.length) sp) ≤
                  cq (qAt d sp0) (.tpl (ks'.take es.length) (ks'.drop es.length) sp) := Nat.le_refl _
              simp only [reqOwn, hte, hc, Bool.true_and]
              simp only [Bool.and_eq_true, Bool.not_eq_true'] at hc
              by_cases hd : (decide (cfg.tplName = d) && decide (sp = sp0)) = true
              · simp only [hd, if_true]; omega
              · simp only [hd, Bool.false_eq_true, if_false]; omega
            · rw [he']
              obtain ⟨k1, k2⟩ := isPlusSum_ddParen first args asg cfg.tplName sp
              exact ⟨by rw [k2]; rfl, by intro _ h; rw [k1] at h; cases h⟩
        · simp only [hc, Bool.false_eq_true, if_false, run_pure]
          refine ⟨?_, SK.refl cfg _ (by intro h; cases h)⟩
          rw [R_eq]
          have : reqOwn cfg d sp0 (.tpl es qs sp) = 0 := by
            simp only [Bool.not_eq_true] at hc
            simp only [reqOwn, hte, Bool.true_and, hc, Bool.false_and, Bool.false_eq_true, if_false]
          rw [this]
          simp [visitedKids, hte, hc]
      · simp only [hte, Bool.false_eq_true, if_false] at hfo ⊢
        exact hplain _ s h0 ht hs hfo (by intro _ _ _ _ h; cases h) (by simp [reqOwn, hte])
          (by simp [visitedKids, hte, kids])
    | bin op l r sp =>
      simp only [visit] at hfo ⊢
      -- the two children, visited one after the other
      have hl0 : ns l = 0 := by simp only [ns_bin] at h0; omega
      have hr0 : ns r = 0 := by simp only [ns_bin] at h0; omega
      have htk := targetsOk_kids ht
      have htl : targetsOk l = true := htk l (by simp [kids])
      have htr : targetsOk r = true := htk r (by simp [kids])
      have key : ∀ (rt : Bool) (s : St), StOk s → (mapKidsM mapM' (visit cfg f rt) (.bin op l r sp) s).2.fuelOut = false →
          ∃ l' r', (mapKidsM mapM' (visit cfg f rt) (.bin op l r sp) s).1 = .bin op l' r' sp ∧
            SK cfg l l' ∧ SK cfg r r' := by
        intro rt s hs hfo
        simp only [mapKidsM, kids, mapM', run_bind, run_pure, withKids, List.getD_cons_zero, List.getD_cons_succ] at hfo ⊢
        have hsl := visit_spec ok cfg hcfg f rt l s hl0 htl hs
        have hs1 := hsl.2.1.stOk hs
        have hsr := visit_spec ok cfg hcfg f rt r (visit cfg f rt l s).2 hr0 htr hs1
        have hfo1 : (visit cfg f rt l s).2.fuelOut = false := hsr.2.1.fo hfo
        exact ⟨_, _, rfl, (ih rt l s hl0 htl hs hfo1).2, (ih rt r _ hr0 htr hs1 hfo).2⟩
      have skbin : ∀ l' r', SK cfg l l' → SK cfg r r' → isLiteralSum (.bin op l' r' sp) = isLiteralSum (.bin op l r sp) := by
        intro l' r' a b; simp only [isLiteralSum, a.1, b.1]
      by_cases hpe : cfg.plusEnabled = true
      · simp only [hpe, if_true, run_bind] at hfo ⊢
        obtain ⟨ks', h1, hl, g, e, p⟩ := mapKids_spec' ok _ (hv false) (.bin op l r sp) s h0 ht hs
        have hgen1 := hgen false (.bin op l r sp) s h0 ht hs
        have hkey := key false s hs
        generalize mapKidsM mapM' (visit cfg f false) (.bin op l r sp) s = K at h1 hgen1 e hfo hkey
        obtain ⟨n1, s1⟩ := K
        simp only at h1 hgen1 e hfo hkey ⊢
        match ks', hl, g, h1 with
        | [l', r'], _, g, h1 =>
          simp only [withKids, List.getD_cons_zero, List.getD_cons_succ] at h1
          subst h1
          simp only [goodL_cons, goodL_nil, Bool.and_true, Bool.and_eq_true] at g
          by_cases hop : (op == "+") = true
          · have hop' : op = "+" := by simpa using hop
            subst hop'
            simp only [beq_self_eq_true, if_true, run_bind, run_pure] at hfo ⊢
            have hsp := toDdBinary_spec ok true cfg "+" l' r' sp s1 g.1 g.2 (hcfg.1 hpe)
            have h2 := toDdBinary_Q (qAt d sp0) cfg "+" l' r' sp s1
            have h3 := toDdBinary_mirror cfg l' r' sp s1
            have h4 := toDdBinary_none cfg l' r' sp s1
            have h5 := toDdBinary_some_not_literal cfg l' r' sp s1
            generalize toDdBinary cfg (.bin "+" l' r' sp) s1 = X at h2 h3 h4 h5 hsp hfo
            obtain ⟨res, s2⟩ := X
            obtain ⟨t2, _⟩ := hsp
            simp only at h2 h3 h4 h5 t2 hfo ⊢
            have e2 : StOk s2 := ((e.trans (Eff.of_TS t2))).stOk hs
            have hu := updateStatus_statusOf res (some Generated.addTag) s2 e2
            have hfo3 : (updateStatus (statusOf res) (some Generated.addTag) s2).2.fuelOut = false :=
              (finish_TS root _ _).fo hfo
            have hfo1 : s1.fuelOut = false := t2.fo (hu.fo hfo3)
            obtain ⟨l'', r'', hn1, skl, skr⟩ := hkey hfo1
            simp only [Node.bin.injEq] at hn1
            obtain ⟨_, rfl, rfl, _⟩ := hn1
            have hk := hgen1 hfo1
            rw [finish_fst]
            have hvk : visitedKids cfg (.bin "+" l r sp) = (Node.bin "+" l r sp).kids := rfl
            cases res with
            | none =>
              simp only [Option.getD_none]
              obtain ⟨a, b⟩ := h4 rfl (skl.nlSum hpe) (skr.nlSum hpe)
              refine ⟨?_, ?_⟩
              · rw [R_eq, hvk]
                have : reqOwn cfg d sp0 (.bin "+" l r sp) = 0 := by
                  rw [skl.1] at a; rw [skr.1] at b
                  simp [reqOwn, a, b]
                omega
              · refine ⟨skbin _ _ skl skr, ?_⟩
                intro _ _
                simp [isLiteralSum, a, b]
            | some e' =>
              simp only [Option.getD_some]
              obtain ⟨first, args, asg, he', _⟩ := h3 e' rfl
              have hq := h2 e' rfl
              rw [lastOf_eq_of_ddParen he', qAt_ddCall] at hq
              refine ⟨?_, ?_⟩
              · rw [R_eq, hvk, hq]
                simp only [cq_bin] at hk
                simp only [reqOwn, hpe, beq_self_eq_true, Bool.true_and]
                by_cases hd : (decide (cfg.plusName = d) && decide (sp = sp0)) = true
                · simp only [hd, if_true]
                  split <;> omega
                · simp only [hd, Bool.false_eq_true, if_false]
                  have : (if (!(isLiteralSum l && isLiteralSum r) && decide (cfg.plusName = d) && decide (sp = sp0)) = true then 1 else 0) = 0 := by
                    simp only [Bool.and_assoc] at hd ⊢
                    simp [hd]
                  omega
              · rw [he']
                obtain ⟨k1, k2⟩ := isPlusSum_ddParen first args asg cfg.plusName sp
                refine ⟨?_, by intro _ h; rw [k1] at h; cases h⟩
                rw [k2]
                -- the `+` was instrumented, so it is not a sum of literals
                cases hls : isLiteralSum (.bin "+" l r sp)
                · rfl
                · exfalso
                  simp only [isLiteralSum, beq_self_eq_true, Bool.true_and, Bool.and_eq_true] at hls
                  have a : isLiteralSum l' = true := by rw [skl.1]; exact hls.1
                  have b : isLiteralSum r' = true := by rw [skr.1]; exact hls.2
                  exact h5 a b e' rfl
          · simp only [hop, Bool.false_eq_true, if_false, run_bind, run_pure] at hfo ⊢
            have hfo1 : s1.fuelOut = false := (finish_TS root _ _).fo hfo
            obtain ⟨l'', r'', hn1, skl, skr⟩ := hkey hfo1
            simp only [Node.bin.injEq] at hn1
            obtain ⟨_, rfl, rfl, _⟩ := hn1
            rw [finish_fst]
            have hop' : (op == "+") = false := by simpa using hop
            refine ⟨?_, skbin _ _ skl skr, ?_⟩
            · rw [R_eq]
              have : reqOwn cfg d sp0 (.bin op l r sp) = 0 := by simp [reqOwn, hop']
              rw [this, Nat.zero_add]
              exact hgen1 hfo1
            · intro _ h; rw [isPlusSum_bin, hop'] at h; cases h
      · simp only [hpe, Bool.false_eq_true, if_false] at hfo ⊢
        obtain ⟨l', r', hn1, skl, skr⟩ := key root s hs hfo
        refine ⟨?_, ?_⟩
        · rw [R_eq]
          have : reqOwn cfg d sp0 (.bin op l r sp) = 0 := by
            have : cfg.plusEnabled = false := by simpa using hpe
            simp [reqOwn, this]
          rw [this, Nat.zero_add]
          exact hgen root _ s h0 ht hs hfo
        · rw [hn1]
          exact ⟨skbin _ _ skl skr, by intro h; exact absurd h hpe⟩
    | assign op l r sp =>
      simp only [visit] at hfo ⊢
      have hvk : visitedKids cfg (.assign op l r sp) = (Node.assign op l r sp).kids := rfl
      by_cases hpe : cfg.plusEnabled = true
      · simp only [hpe, if_true, run_bind] at hfo ⊢
        obtain ⟨ks', h1, hl, g, e, p⟩ := mapKids_spec' ok _ (hv false) (.assign op l r sp) s h0 ht hs
        have hgen1 := hgen false (.assign op l r sp) s h0 ht hs
        generalize mapKidsM mapM' (visit cfg f false) (.assign op l r sp) s = K at h1 hgen1 e hfo
        obtain ⟨n1, s1⟩ := K
        simp only at h1 hgen1 e hfo ⊢
        match ks', hl, g, p, h1 with
        | [l', r'], _, g, p, h1 =>
          simp only [withKids, List.getD_cons_zero, List.getD_cons_succ] at h1
          subst h1
          simp only [goodL_cons, goodL_nil, Bool.and_true, Bool.and_eq_true] at g
          by_cases hop : (op == "+=") = true
          · simp only [hop, if_true, run_bind, run_pure] at hfo ⊢
            have hts : tshape l' = true := by
              have h := targetsOk_self ht
              simp only [assignTargetOk, Bool.or_eq_true, bne_iff_ne, ne_eq] at h
              simp only [kids, Forall2] at p
              rcases h with h | h
              · exact absurd (by simpa using hop) h
              · exact p.1.1 h
            have hsp := toDdAssign_spec ok true cfg op l' r' sp s1 g.1 g.2 hts (hcfg.1 hpe)
            have h2 := toDdAssign_Q (qAt d sp0) cfg op l' r' sp s1 hts
            have h3 := toDdAssign_mirror cfg op l' r' sp s1
            have h4 := toDdAssign_some cfg op l' r' sp s1 hts (tshape_notPattern hts)
            generalize toDdAssign cfg (.assign op l' r' sp) s1 = X at h2 h3 h4 hsp hfo
            obtain ⟨res, s2⟩ := X
            obtain ⟨t2, _⟩ := hsp
            simp only at h2 h3 h4 t2 hfo ⊢
            have e2 : StOk s2 := ((e.trans (Eff.of_TS t2))).stOk hs
            have hu := updateStatus_statusOf res (some Generated.addAssignTag) s2 e2
            have hfo3 : (updateStatus (statusOf res) (some Generated.addAssignTag) s2).2.fuelOut = false :=
              (finish_TS root _ _).fo hfo
            have hfo1 : s1.fuelOut = false := t2.fo (hu.fo hfo3)
            have hk := hgen1 hfo1
            rw [finish_fst]
            cases res with
            | none => simp at h4
            | some e' =>
              simp only [Option.getD_some]
              obtain ⟨target, first, args, asg, he', _⟩ := h3 e' rfl
              have hq := h2 e' rfl
              have hsq : qAt d sp0 (siteOf e') = (decide (cfg.plusName = d) && decide (sp = sp0)) := by
                rw [he', siteOf_assign, lastOf_ddParen, qAt_ddCall]
              rw [hsq] at hq
              refine ⟨?_, ?_⟩
              · rw [R_eq, hvk, hq]
                simp only [reqOwn, hop, hpe, Bool.true_and]
                by_cases hd : (decide (cfg.plusName = d) && decide (sp = sp0)) = true
                · simp only [hd, if_true]
                  split <;> omega
                · simp only [hd, Bool.false_eq_true, if_false]
                  have : (if (!isOtherNode l && decide (cfg.plusName = d) && decide (sp = sp0)) = true then 1 else 0) = 0 := by
                    simp only [Bool.and_assoc] at hd ⊢
                    simp [hd]
                  omega
              · rw [he']; exact ⟨rfl, by intro _ h; cases h⟩
          · simp only [hop, Bool.false_eq_true, if_false, run_bind, run_pure] at hfo ⊢
            have hfo1 : s1.fuelOut = false := (finish_TS root _ _).fo hfo
            rw [finish_fst]
            have hop' : (op == "+=") = false := by simpa using hop
            have hr : reqOwn cfg d sp0 (.assign op l r sp) = 0 := by simp [reqOwn, hop']
            exact ⟨by rw [R_eq, hr, hvk, Nat.zero_add]; exact hgen1 hfo1, ⟨rfl, by intro _ h; cases h⟩⟩
      · simp only [hpe, Bool.false_eq_true, if_false] at hfo ⊢
        have hpe' : cfg.plusEnabled = false := by simpa using hpe
        exact hplain _ s h0 ht hs hfo (by intro _ _ _ _ h; cases h) (by simp [reqOwn, hpe']) rfl
    | call c as sp =>
      simp only [visit, run_bind] at hfo ⊢
      have hvk : visitedKids cfg (.call c as sp) = (Node.call c as sp).kids := rfl
      obtain ⟨ks', h1, hl, g, e, p⟩ := mapKids_spec' ok _ (hv false) (.call c as sp) s h0 ht hs
      have hgen1 := hgen false (.call c as sp) s h0 ht hs
      -- the visited callee
      have hc' : ∃ as', (mapKidsM mapM' (visit cfg f false) (.call c as sp) s).1 = .call (visit cfg f false c s).1 as' sp :=
        ⟨(mapM' (visit cfg f false) as (visit cfg f false c s).2).1,
         by simp only [mapKidsM, kids, mapM', run_bind, run_pure, withKids, List.getD_cons_zero, List.drop_succ_cons, List.drop_zero]⟩
      generalize mapKidsM mapM' (visit cfg f false) (.call c as sp) s = K at h1 hgen1 e hfo hc'
      obtain ⟨n1, s1⟩ := K
      simp only at h1 hgen1 e hfo hc' ⊢
      match ks', hl, g, h1 with
      | c' :: as', _, g, h1 =>
        simp only [withKids, List.getD_cons_zero, List.drop_succ_cons, List.drop_zero] at h1
        subst h1
        obtain ⟨as'', hcc⟩ := hc'
        simp only [Node.call.injEq] at hcc
        obtain ⟨hcc, _, _⟩ := hcc
        simp only [goodL_cons, Bool.and_eq_true] at g
        simp only at hfo ⊢
        -- what the specification requires for this node
        have hreq : reqOwn cfg d sp0 (.call c as sp) = 0 ∨
            ∃ recv m msp cmsp csi, c = .member recv (.pname m msp) cmsp ∧ cfg.get m = some csi ∧ isCallOrApply m = false ∧
              recvOK cfg m recv = true ∧ reqOwn cfg d sp0 (.call c as sp) = (if (decide (csi.dst = d) && decide (sp = sp0)) = true then 1 else 0) := by
          cases c with
          | member recv prop cmsp =>
            cases prop with
            | pname m msp =>
              simp only [reqOwn]
              cases hgm : cfg.get m with
              | none => left; rfl
              | some csi =>
                simp only
                by_cases hca : isCallOrApply m = true
                · left; simp [hca]
                · by_cases hro : recvOK cfg m recv = true
                  · right
                    have hca' : isCallOrApply m = false := by simpa using hca
                    exact ⟨recv, m, msp, cmsp, csi, rfl, hgm, hca', hro, by simp [hca', hro]⟩
                  · left; simp [hro]
            | _ => left; rfl
          | _ => left; rfl
        split at hfo
        · rename_i hne
          simp only [hne, if_true, run_bind, run_pure] at hfo ⊢
          have hfo1 : s1.fuelOut = false := (finish_TS root _ _).fo hfo
          rw [finish_fst]
          refine ⟨?_, ⟨rfl, by intro _ h; cases h⟩⟩
          rw [R_eq, hvk]
          rcases hreq with hr | ⟨recv, m, msp, cmsp, csi, rfl, _, _, hro, _⟩
          · rw [hr, Nat.zero_add]; exact hgen1 hfo1
          · -- the callee is a member access, which is an expression callee
            exfalso
            obtain ⟨recv', hrv, _⟩ := visit_member_recv cfg m recv msp cmsp hro f false s
            rw [hrv] at hcc
            rw [hcc] at hne
            simp [isNonExprCallee] at hne
        · rename_i hne
          simp only [hne, Bool.false_eq_true, if_false, run_bind] at hfo ⊢
          have hsp := toDdCall_spec ok true cfg c' as' sp s1 hcfg.2.2 g.1 g.2
          have h2 := toDdCall_Q (qAt d sp0) cfg c' as' sp s1
          have h3 := toDdCall_mirror cfg c' as' sp s1
          generalize hX : toDdCall cfg (.call c' as' sp) s1 = X at h2 h3 hsp hfo
          obtain ⟨res, s2⟩ := X
          obtain ⟨t2, _⟩ := hsp
          simp only at h2 h3 t2 hfo ⊢
          have e2 : StOk s2 := ((e.trans (Eff.of_TS t2))).stOk hs
          cases res with
          | none =>
            simp only [run_bind, run_pure] at hfo ⊢
            have hfo1 : s1.fuelOut = false := t2.fo ((finish_TS root _ _).fo hfo)
            rw [finish_fst]
            refine ⟨?_, ⟨rfl, by intro _ h; cases h⟩⟩
            rw [R_eq, hvk]
            rcases hreq with hr | ⟨recv, m, msp, cmsp, csi, rfl, hgm, hca, hro, _⟩
            · rw [hr, Nat.zero_add]; exact hgen1 hfo1
            · exfalso
              obtain ⟨recv', hrv, hcv⟩ := visit_member_recv cfg m recv msp cmsp hro f false s
              rw [hrv] at hcc
              subst hcc
              have := toDdCall_some cfg recv' m msp cmsp as' sp s1 (by rw [hgm]; rfl) hca hcv
              rw [hX] at this
              simp at this
          | some et =>
            obtain ⟨e', tag⟩ := et
            simp only [run_bind, run_pure] at hfo ⊢
            have hu := updateStatus_modified (some tag) s2 e2
            have hfo1 : s1.fuelOut = false := t2.fo (hu.fo ((finish_TS root _ _).fo hfo))
            have hk := hgen1 hfo1
            rw [finish_fst]
            obtain ⟨csi0, _, hq⟩ := h2 e' tag rfl
            obtain ⟨first, args, asg, name, sp', he', _⟩ := h3 e' tag rfl
            rw [cq_call_user _ _ _ _ (hookName?_call_none _ _ g.1)] at hk
            refine ⟨?_, ?_⟩
            · rw [R_eq, hvk, hq]
              rcases hreq with hr | ⟨recv, m, msp, cmsp, csi, rfl, hgm, hca, hro, hr⟩
              · rw [hr]; omega
              · obtain ⟨recv', hrv, hcv⟩ := visit_member_recv cfg m recv msp cmsp hro f false s
                rw [hrv] at hcc
                subst hcc
                obtain ⟨first2, args2, asg2, he2⟩ := toDdCall_member_site cfg recv' m msp cmsp as' sp s1 csi hgm hca e' tag (by rw [hX])
                have hsq : qAt d sp0 (lastOf e') = (decide (csi.dst = d) && decide (sp = sp0)) := by
                  rw [he2, lastOf_ddParen, qAt_ddCall]
                rw [hr, hsq]
                split <;> omega
            · rw [he']
              obtain ⟨k1, k2⟩ := isPlusSum_ddParen first args asg name sp'
              exact ⟨by rw [k2]; rfl, by intro _ h; rw [k1] at h; cases h⟩
    | lit k v r sp =>
      simp only [visit] at hfo ⊢
      exact hplain _ s h0 ht hs hfo (by intro _ _ _ _ h; cases h) rfl rfl
    | _ =>
      simp only [visit] at hfo ⊢
      exact hplain _ s h0 ht hs hfo (by intro _ _ _ _ h; cases h) rfl rfl
where
  C04some (cfg : Config) (exprs quasis : List Node) (sp : Span) (s : St) :
      ((toDdTpl cfg (.tpl exprs quasis sp)) s).1.isSome = true := by
    simp [toDdTpl, run_bind, run_pure]

end IastModel

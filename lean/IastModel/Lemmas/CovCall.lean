import IastModel.Lemmas.CovAssign
namespace IastModel
open Node

/-! ### method calls: the transform goes ahead, and the hook carries the call's name and span -/

def SiteRes (cfg : Config) (csp : Span) (R : Option (Node × String) × St) : Prop :=
  ∀ e' tag, R.1 = some (e', tag) → ∃ csi first args asg, cfg.get tag = some csi ∧ e' = ddParen first args asg csi.dst csp

theorem siteRes_none (cfg : Config) (csp : Span) (s : St) : SiteRes cfg csp ((none : Option (Node × String)), s) := by
  intro e' tag h; cases h

theorem rcwmTail_site (cfg : Config) (csi : CsiMethod) (method : String) (identReplacement memberExpr expr callee : Node) (cargs asg0 : List Node)
    (csp : Span) (coa : Option String) (s0 : St) (hg : cfg.get method = some csi) :
    SiteRes cfg csp (rcwmTail csi.dst method identReplacement memberExpr expr callee cargs asg0 csp coa s0) ∧
    (rcwmTail csi.dst method identReplacement memberExpr expr callee cargs asg0 csp coa s0).1.isSome = true := by
  unfold rcwmTail
  simp only [run_bind, run_pure]
  generalize getIdentUsed memberExpr asg0 [] csp .expr s0 = R1
  obtain ⟨⟨ic, asg1, args1⟩, s1⟩ := R1
  simp only
  generalize replaceCallCalleeAndArgs callee cargs csp _ asg1 _ coa s1 = R2
  obtain ⟨⟨callRepl, asg3, args3⟩, s3⟩ := R2
  refine ⟨?_, rfl⟩
  intro e' tag hres
  simp only [Option.some.injEq, Prod.mk.injEq] at hres
  exact ⟨csi, _, _, _, by rw [← hres.2]; exact hg, hres.1.symm⟩

theorem replaceCallWithMember_site (cfg : Config) (expr : Node) (method : String) (msp : Span)
    (callee : Node) (cargs : List Node) (csp : Span) (memberOpt : Option Node) (coa : Option String) (s : St) :
    SiteRes cfg csp (replaceCallWithMember cfg expr method msp callee cargs csp memberOpt coa s) ∧
    ((cfg.get method).isSome = true → (replaceCallWithMember cfg expr method msp callee cargs csp memberOpt coa s).1.isSome = true) := by
  cases hg : cfg.get method with
  | none =>
    unfold replaceCallWithMember
    simp only [hg]
    exact ⟨siteRes_none _ _ _, by intro h; cases h⟩
  | some csi =>
    rw [replaceCallWithMember_unfold _ _ _ _ _ _ _ _ _ _ csi hg]
    simp only
    have := rcwmTail_site cfg csi method (identOr (getTemporalIdent expr [] csp .expr s).1.1 expr)
      (memberOr memberOpt (.member (identOr (getTemporalIdent expr [] csp .expr s).1.1 expr) (.pname method msp) csp)) expr callee cargs
      (getTemporalIdent expr [] csp .expr s).1.2 csp coa (getTemporalIdent expr [] csp .expr s).2 hg
    exact ⟨this.1, fun _ => this.2⟩

theorem replaceCallSpreadWithMember_site (cfg : Config) (method : String)
    (callee : Node) (cargs : List Node) (csp : Span) (memberExpr : Node) (coa : String) (s : St) :
    SiteRes cfg csp (replaceCallSpreadWithMember cfg method callee cargs csp memberExpr coa s) := by
  unfold replaceCallSpreadWithMember
  cases hg : cfg.get method with
  | none => exact siteRes_none _ _ _
  | some csi =>
    simp only [run_bind, run_pure]
    generalize getIdentUsed memberExpr [] [] csp .expr s = R1
    obtain ⟨⟨ic, asg1, args1⟩, s1⟩ := R1
    cases ic with
    | none => exact siteRes_none _ _ _
    | some n =>
      simp only [run_bind, run_pure]
      generalize replaceCallCalleeAndArgs callee cargs csp _ asg1 args1 _ s1 = R2
      obtain ⟨⟨callRepl, asg3, args3⟩, s3⟩ := R2
      intro e' tag hres
      simp only [Option.some.injEq, Prod.mk.injEq] at hres
      exact ⟨csi, _, _, _, by rw [← hres.2]; exact hg, hres.1.symm⟩

theorem replaceCallWithoutCallee_site (cfg : Config) (name : Name) (isp : Span) (callee : Node) (cargs : List Node) (csp : Span) (s : St) :
    SiteRes cfg csp (replaceCallWithoutCallee cfg name isp callee cargs csp s) := by
  unfold replaceCallWithoutCallee
  cases name with
  | temp k => exact siteRes_none _ _ _
  | user method =>
    simp only
    cases hg : cfg.get method with
    | none => exact siteRes_none _ _ _
    | some csi =>
      simp only
      split
      · simp only [run_bind, run_pure]
        generalize replaceCallCalleeAndArgs callee cargs csp none [] _ none s = R2
        obtain ⟨⟨callRepl, asg3, args3⟩, s3⟩ := R2
        intro e' tag hres
        simp only [Option.some.injEq, Prod.mk.injEq] at hres
        exact ⟨csi, _, _, _, by rw [← hres.2]; exact hg, hres.1.symm⟩
      · exact siteRes_none _ _ _

theorem replacePrototypeCallOrApply_site (cfg : Config) (cargs : List Node) (csp : Span) (callee member : Node)
    (coa : String) (s : St) :
    SiteRes cfg csp (replacePrototypeCallOrApply cfg cargs csp callee member coa s) := by
  unfold replacePrototypeCallOrApply
  by_cases h1 : isCallOrApply coa = true
  · simp only [h1, Bool.not_true, Bool.false_eq_true, if_false]
    unfold prototypeMethodIdent
    by_cases hsp : isStaticPath member = true
    · simp only [hsp, if_true]
      cases member with
      | member mo mp msp0 =>
        cases mp with
        | pname method msp =>
          simp only
          cases cargs with
          | nil => exact siteRes_none _ _ _
          | cons th rest =>
            simp only
            by_cases hs : argIsSpread th = true
            · simp only [hs, if_true]
              exact replaceCallSpreadWithMember_site cfg method callee (th :: rest) csp _ coa s
            · simp only [hs, Bool.false_eq_true, if_false]
              by_cases hinv : invalidArgs coa (th :: rest) = true
              · simp only [hinv, if_true]; exact siteRes_none _ _ _
              · simp only [hinv, Bool.false_eq_true, if_false]
                split
                · exact siteRes_none _ _ _
                · exact (replaceCallWithMember_site cfg (argExpr th) method msp _ rest csp
                    (some (.member mo (.pname method msp) msp0)) (some coa) s).1
        | _ => simp [isStaticPath] at hsp
      | _ => simp [isStaticPath] at hsp
    · simp only [hsp, Bool.false_eq_true, if_false]; exact siteRes_none _ _ _
  · simp only [h1, Bool.not_false, if_true]; exact siteRes_none _ _ _

/-- a method-call hook is named after the configured method and carries the span of the call -/
theorem toDdCall_site (cfg : Config) (callee : Node) (cargs : List Node) (csp : Span) (s : St) :
    SiteRes cfg csp (toDdCall cfg (.call callee cargs csp) s) := by
  unfold toDdCall
  cases callee with
  | member obj prop msp0 =>
    cases prop with
    | pname m msp =>
      have key := fun (_ : Unit) => (replaceCallWithMember_site cfg obj m msp (.member obj (.pname m msp) msp0) cargs csp none none s).1
      cases obj with
      | lit k v r lsp =>
        simp only
        split
        · exact key ()
        · exact siteRes_none _ _ _
      | ident nm isp => exact key ()
      | call c as csp2 => exact key ()
      | paren e psp => exact key ()
      | array es asp => exact key ()
      | member o2 p2 msp2 =>
        simp only
        split
        · exact replacePrototypeCallOrApply_site cfg cargs csp _ _ m s
        · split
          · exact key ()
          · exact siteRes_none _ _ _
      | _ => exact siteRes_none _ _ _
    | _ => exact siteRes_none _ _ _
  | ident name isp => exact replaceCallWithoutCallee_site cfg name isp _ cargs csp s
  | _ => exact siteRes_none _ _ _

/-- receivers for which `recv.m(..)` is instrumented (the decision of `to_dd_call_expr` on the receiver) -/
def covM (cfg : Config) (m : String) (obj : Node) : Bool :=
  match obj with
  | .lit .. => cfg.allowsLiteralCallers m
  | .ident .. => true
  | .call .. => true
  | .paren .. => true
  | .array .. => true
  | .member .. => !memberPropIsPrototype obj
  | _ => false

theorem toDdCall_some (cfg : Config) (obj : Node) (m : String) (msp msp0 : Span) (cargs : List Node) (csp : Span) (s : St)
    (hg : (cfg.get m).isSome = true) (hca : isCallOrApply m = false) (hc : covM cfg m obj = true) :
    (toDdCall cfg (.call (.member obj (.pname m msp) msp0) cargs csp) s).1.isSome = true := by
  have key := (replaceCallWithMember_site cfg obj m msp (.member obj (.pname m msp) msp0) cargs csp none none s).2 hg
  unfold toDdCall
  cases obj with
  | lit k v r lsp => simp only [covM] at hc; simp only [hc, if_true]; exact key
  | ident nm isp => exact key
  | call c as csp2 => exact key
  | paren e psp => exact key
  | array es asp => exact key
  | member o2 p2 msp2 =>
    simp only [covM, Bool.not_eq_true'] at hc
    simp only [hca, Bool.false_eq_true, if_false, hc, Bool.not_false, if_true]
    exact key
  | _ => simp [covM] at hc

end IastModel

import IastModel.Lemmas.EffCount
namespace IastModel
open Node

/-- conservation for the operand handler: every effect node that leaves the operand position arrives in
    the assignments; the argument list only receives copies without effect nodes -/
def OpE (e : Node) (asg args : List Node) (R : (Node × List Node × List Node) × St) : Prop :=
  eff R.1.1 + effL R.1.2.1 = eff e + effL asg ∧ effL R.1.2.2 = effL args

def OpEL (xs : List Node) (asg args : List Node) (R : (List Node × List Node × List Node) × St) : Prop :=
  effL R.1.1 + effL R.1.2.1 = effL xs + effL asg ∧ effL R.1.2.2 = effL args

theorem replaceDefault_E (e : Node) (asg args : List Node) (sp : Span) (k : IdentKind) (s : St) :
    OpE e asg args (replaceDefault e asg args sp k s) := by
  unfold replaceDefault
  simp only [run_bind, run_pure]
  rcases getIdentUsed_cases e asg args sp k s with ⟨hl, h⟩ | ⟨hl, n, s', h, _⟩
  · rw [h]; simp [OpE, eff_exprOrSpread, isLit_eff hl]
  · rw [h]; simp [OpE, eff_exprOrSpread, tempIdent, eff_assignRight]; omega

theorem leaf_eff {e : Node} (h : leaf e = true) : eff e = 0 := by
  cases e <;> simp_all [leaf, Node.isIdent, Node.isLit]

theorem replaceExprNoExpand_E (e : Node) (mode : IdentMode) (asg args : List Node) (sp : Span) (k : IdentKind) (s : St) :
    OpE e asg args (replaceExprNoExpand e mode asg args sp k s) := by
  cases e with
  | lit kk v r lsp => simp [replaceExprNoExpand, run_pure, OpE, eff_exprOrSpread]
  | ident nm isp =>
    cases mode with
    | replace => simp only [replaceExprNoExpand]; exact replaceDefault_E _ _ _ _ _ _
    | keep => simp [replaceExprNoExpand, run_pure, OpE, eff_exprOrSpread]
  | bin op l r bsp =>
    simp only [replaceExprNoExpand]
    by_cases hop : (op != "+") = true
    · simp only [hop, if_true]; exact replaceDefault_E _ _ _ _ _ _
    · simp only [hop, Bool.false_eq_true, if_false]
      by_cases hls : isLiteralSum (.bin op l r bsp) = true
      · have := isLiteralSum_eff _ hls
        simp only [hls, if_true, run_pure, OpE, effL_append, effL_cons, effL_nil, eff_exprOrSpread, this]
        simp
      · simp [hls, run_pure, OpE]
  | _ => simp only [replaceExprNoExpand]; exact replaceDefault_E _ _ _ _ _ _

theorem replaceArgNoExpand_E (a : Node) (mode : IdentMode) (asg args : List Node) (sp : Span) (s : St) :
    OpE a asg args (replaceArgNoExpand a mode asg args sp s) := by
  cases a with
  | arg spread e =>
    simp only [replaceArgNoExpand, run_bind, run_pure]
    have h := replaceExprNoExpand_E e mode asg args sp (if spread.isSome = true then IdentKind.spread else IdentKind.expr) s
    simpa [OpE] using h
  | _ => simp [replaceArgNoExpand, run_pure, OpE]

theorem replaceElem_E (a : Node) (mode : IdentMode) (asg args : List Node) (sp : Span) (s : St) :
    OpE a asg args (replaceElem a mode asg args sp s) := by
  cases a with
  | arg spread e => exact replaceArgNoExpand_E _ mode asg args sp s
  | _ => simp [replaceElem, run_pure, OpE, voidZero, eff_unary]

theorem opEL_cons (g : Node → List Node → List Node → M (Node × List Node × List Node))
    (gs : List Node → List Node → List Node → M (List Node × List Node × List Node))
    (x : Node) (xs asg args : List Node) (s : St)
    (h1 : OpE x asg args (g x asg args s))
    (h2 : ∀ asg1 args1 s1, OpEL xs asg1 args1 (gs xs asg1 args1 s1)) :
    OpEL (x :: xs) asg args
      (let R1 := g x asg args s
       let R2 := gs xs R1.1.2.1 R1.1.2.2 R1.2
       ((R1.1.1 :: R2.1.1, R2.1.2.1, R2.1.2.2), R2.2)) := by
  obtain ⟨a1, a2⟩ := h1
  obtain ⟨b1, b2⟩ := h2 (g x asg args s).1.2.1 (g x asg args s).1.2.2 (g x asg args s).2
  simp only [OpEL, effL_cons]
  exact ⟨by omega, by omega⟩

theorem replaceElems_E (mode : IdentMode) (sp : Span) : ∀ (xs asg args : List Node) (s : St),
    OpEL xs asg args (replaceElems mode sp xs asg args s) := by
  intro xs
  induction xs with
  | nil => intro asg args s; simp [replaceElems, run_pure, OpEL]
  | cons x xs ih =>
    intro asg args s
    have := opEL_cons (fun a b c => replaceElem a mode b c sp) (fun a b c => replaceElems mode sp a b c) x xs asg args s
      (replaceElem_E x mode asg args sp s) (fun a b c => ih a b c)
    simpa only [replaceElems, run_bind, run_pure] using this

theorem replaceExpr_E (e : Node) (mode : IdentMode) (asg args : List Node) (sp : Span) (k : IdentKind)
    (expand : Bool) (s : St) : OpE e asg args (replaceExpr e mode asg args sp k expand s) := by
  unfold replaceExpr
  split
  · rename_i elems asp
    simp only [run_bind, run_pure]
    have h := replaceElems_E mode sp elems asg args s
    generalize replaceElems mode sp elems asg args s = R at h
    obtain ⟨⟨xs', asg2, args2⟩, s2⟩ := R
    simpa [OpE, OpEL] using h
  · exact replaceExprNoExpand_E e mode asg args sp k s

theorem replaceArg_E (a : Node) (mode : IdentMode) (asg args : List Node) (sp : Span) (expand : Bool) (s : St) :
    OpE a asg args (replaceArg a mode asg args sp expand s) := by
  cases a with
  | arg spread e =>
    simp only [replaceArg, run_bind, run_pure]
    have h := replaceExpr_E e mode asg args sp (if spread.isSome = true then IdentKind.spread else IdentKind.expr) expand s
    simpa [OpE] using h
  | _ => simp [replaceArg, run_pure, OpE]

theorem replaceArgs_E (mode : IdentMode) (sp : Span) (expand : Bool) : ∀ (xs asg args : List Node) (s : St),
    OpEL xs asg args (replaceArgs mode sp expand xs asg args s) := by
  intro xs
  induction xs with
  | nil => intro asg args s; simp [replaceArgs, run_pure, OpEL]
  | cons x xs ih =>
    intro asg args s
    have := opEL_cons (fun a b c => replaceArg a mode b c sp expand) (fun a b c => replaceArgs mode sp expand a b c) x xs asg args s
      (replaceArg_E x mode asg args sp expand s) (fun a b c => ih a b c)
    simpa only [replaceArgs, run_bind, run_pure] using this

theorem replaceTplExprs_E : ∀ (xs asg args : List Node) (s : St),
    OpEL xs asg args (replaceTplExprs xs asg args s) := by
  intro xs
  induction xs with
  | nil => intro asg args s; simp [replaceTplExprs, run_pure, OpEL]
  | cons x xs ih =>
    intro asg args s
    have hx : OpE x asg args (replaceExpr (tplOperand x) .replace asg args x.span .expr false s) := by
      have h := replaceExpr_E (tplOperand x) .replace asg args x.span .expr false s
      have : eff (tplOperand x) = eff x := by unfold tplOperand; split <;> simp
      simpa [OpE, this] using h
    have := opEL_cons (fun a b c => replaceExpr (tplOperand a) .replace b c a.span .expr false) (fun a b c => replaceTplExprs a b c) x xs asg args s
      hx (fun a b c => ih a b c)
    simpa only [replaceTplExprs, run_bind, run_pure] using this

end IastModel

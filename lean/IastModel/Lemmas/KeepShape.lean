import IastModel.Lemmas.KeepAssign
namespace IastModel
open Node

theorem ocSpine_ba (v : Node → OcM Node) (e : Node) (oc : OcSt) (s : St) (h : isBA e = false) :
    isBA ((ocSpine v e oc s).1.1) = false := by
  unfold ocSpine
  split
  · simp only [oc_bind, oc_pure]; rfl
  · simp only [oc_bind, oc_pure]; rfl
  · split
    · simpa [oc_pure] using h
    · simp only [oc_bind, oc_pure]; rfl
  · simp only [oc_bind, oc_pure]; rfl
  · simpa [oc_pure] using h


theorem getCallFromBaseCall_ba (callee : Node) (args : List Node) (optional : Bool) (oc : OcSt) (s : St) (r : Node)
    (h : (getCallFromBaseCall callee args optional oc s).1.1 = some r) : isBA r = false := by
  unfold getCallFromBaseCall at h
  by_cases ho : optional = true
  · simp only [ho, if_true] at h
    cases callee with
    | member mobj mprop msp =>
      simp only [oc_bind, oc_get, oc_set, oc_lift, oc_pure, oc_modify] at h
      generalize (getIdentUsed mobj oc.assignments [] Span.dummy IdentKind.expr s) = X at h
      obtain ⟨⟨id, asg1, a1⟩, s1⟩ := X
      cases id with
      | none => simp [oc_pure] at h
      | some t0 =>
        simp only [oc_bind, oc_get, oc_set, oc_lift, oc_pure, oc_modify] at h
        generalize (getIdentUsed _ asg1 [] Span.dummy IdentKind.expr s1) = Y at h
        obtain ⟨⟨id2, asg2, a2⟩, s2⟩ := Y
        cases id2 with
        | none => simp [oc_pure] at h
        | some t1 =>
          simp only [oc_bind, oc_modify, oc_pure] at h
          simp at h; subst h; rfl
    | _ =>
      simp only [oc_bind, oc_get, oc_set, oc_lift, oc_pure, oc_modify] at h
      generalize (getIdentUsed _ oc.assignments [] Span.dummy IdentKind.expr s) = X at h
      obtain ⟨⟨id, asg1, a1⟩, s1⟩ := X
      cases id with
      | none => simp [oc_pure] at h
      | some t0 =>
        simp only at h
        by_cases he : asg1.isEmpty = true
        · simp [he, oc_pure] at h
        · simp only [he, Bool.false_eq_true, if_false, oc_bind, oc_modify, oc_pure] at h
          simp at h; subst h; rfl
  · simp only [ho, Bool.false_eq_true, if_false, oc_pure] at h
    simp at h; subst h; rfl

theorem getMemberFromBaseMember_ba (obj prop : Node) (msp : Span) (optional : Bool) (oc : OcSt) (s : St) (r : Node)
    (h : (getMemberFromBaseMember obj prop msp optional oc s).1.1 = some r) : isBA r = false := by
  unfold getMemberFromBaseMember at h
  by_cases ho : optional = true
  · simp only [ho, if_true, oc_bind, oc_get, oc_set, oc_lift, oc_pure] at h
    generalize (getIdentUsed obj oc.assignments [] Span.dummy IdentKind.expr s) = X at h
    obtain ⟨⟨id, asg1, a1⟩, s1⟩ := X
    cases id with
    | none => simp [oc_pure] at h
    | some t =>
      simp only [oc_bind, oc_modify, oc_pure] at h
      simp at h; subst h; rfl
  · simp only [ho, Bool.false_eq_true, if_false, oc_pure] at h
    simp at h; subst h; rfl

theorem ocVisit_ba (cfg : Config) : ∀ (f : Nat) (n : Node) (oc : OcSt) (s : St),
    isBA n = false → isBA ((ocVisit cfg f n oc s).1.1) = false := by
  intro f
  induction f with
  | zero =>
    intro n oc s h
    simp only [ocVisit, oc_bind, oc_lift, oc_pure]
    exact h
  | succ f ih =>
    intro n oc s h
    unfold ocVisit
    split
    · -- optChain
      rename_i optional base sp
      rw [oc_bind, oc_get]
      show isBA ((ite (oc.found = true) _ _ : OcM Node) oc s).1.1 = false
      by_cases hf : oc.found = true
      · rw [if_pos hf]
        have key : ∀ (m : OcM (Option Node)),
            (∀ r, (m oc s).1.1 = some r → isBA r = false) →
            isBA ((do
              let r ← m
              if optional = true then pure (r.getD (optChain optional base sp))
              else ocSpine (ocVisit cfg f) (r.getD (optChain optional base sp)) : OcM Node) oc s).1.1 = false := by
          intro m hm
          simp only [oc_bind]
          generalize hR : m oc s = R at hm
          obtain ⟨⟨r, oc1⟩, s1⟩ := R
          have hr1 : isBA (r.getD (Node.optChain optional base sp)) = false := by
            cases r with
            | none => rfl
            | some x => exact hm x rfl
          by_cases ho : optional = true
          · rw [if_pos ho, oc_pure]; exact hr1
          · rw [if_neg ho]
            exact ocSpine_ba _ _ _ _ hr1
        cases base with
        | optCall callee args csp => exact key _ (fun r hr => getCallFromBaseCall_ba _ _ _ _ _ _ hr)
        | member obj prop msp => exact key _ (fun r hr => getMemberFromBaseMember_ba _ _ _ _ _ _ _ hr)
        | _ => exact key (pure none) (fun r hr => by simp [oc_pure] at hr)
      · rw [if_neg hf]
        by_cases ht : ocTrigger cfg optional base = true
        · rw [if_pos ht]; simp only [oc_bind, oc_modify]
          exact ih _ _ _ rfl
        · rw [if_neg ht]; exact ocSpine_ba _ _ _ _ rfl
    · rw [oc_pure]; exact h



theorem toDdCond_ba (cfg : Config) (fuel : Nat) (e : Node) (s : St) (h : isBA e = false) :
    isBA (toDdCond cfg fuel e s).1.1 = false ∧ ∀ r, (toDdCond cfg fuel e s).1.2 = some r → isBA r = false := by
  unfold toDdCond
  simp only [run_bind]
  have hv : isBA (StateT.run (ocVisit cfg fuel e) {} s).1.1 = false := ocVisit_ba cfg fuel e {} s h
  generalize (StateT.run (ocVisit cfg fuel e) {} s) = X at hv ⊢
  obtain ⟨⟨e', oc⟩, s'⟩ := X
  have hv' : isBA e' = false := hv
  cases hn : oc.newIdent with
  | none => simp [hn, run_pure, hv']
  | some t =>
    simp only [hn]
    by_cases ha : oc.assignments.isEmpty = true
    · simp [ha, run_pure, hv']
    · simp only [ha, Bool.false_eq_true, if_false, run_pure]
      refine ⟨hv', ?_⟩
      intro r hr
      simp at hr
      subst hr
      rfl



end IastModel

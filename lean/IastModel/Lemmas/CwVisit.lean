import IastModel.Lemmas.CwTr
import IastModel.Lemmas.CvVisit
namespace IastModel
open Node

theorem cw_eq (cfg : Config) (n : Node) : cw cfg n = (if isBadHook (notRobust cfg) n then 1 else 0) + cwL cfg n.kids := cq_eq _ n

/-- **the operation visitor leaves no hook site that does not mirror its operation** (conservation form:
    the number of such sites does not change; a source tree has none) -/
theorem visit_W (cfg : Config) (ok : String → Bool) (hcfg : CfgOk ok cfg) :
    ∀ (f : Nat) (root : Bool) (n : Node) (s : St), ns n = 0 → targetsOk n = true → StOk s →
      cw cfg (visit cfg f root n s).1 = cw cfg n := by
  intro f
  induction f with
  | zero => intro root n s _ _ _; simp only [visit, run_bind, run_pure]
  | succ f ih =>
    intro root n s h0 ht hs
    have hv : ∀ r, VHyp ok (visit cfg f r) := fun r k s h0 ht hs => visit_spec ok cfg hcfg f r k s h0 ht hs
    have hkids : ∀ (r : Bool) (ks : List Node) (s : St), nsL ks = 0 → (∀ k ∈ ks, targetsOk k = true) → StOk s →
        cwL cfg (mapM' (visit cfg f r) ks s).1 = cwL cfg ks := by
      intro r ks
      induction ks with
      | nil => intro s _ _ _; rfl
      | cons k ks ihk =>
        intro s hz htk hs
        simp only [nsL_cons] at hz
        simp only [mapM', run_bind, run_pure, cwL, cqL_cons]
        have hk1 := ih r k s (by omega) (htk k (by simp)) hs
        have hsp := visit_spec ok cfg hcfg f r k s (by omega) (htk k (by simp)) hs
        have hk2 := ihk _ (by omega) (fun x hx => htk x (by simp [hx])) (hsp.2.1.stOk hs)
        simp only [cw, cwL] at hk1 hk2
        rw [hk1, hk2]
    have hgen : ∀ (r : Bool) (n : Node) (s : St), ns n = 0 → targetsOk n = true → StOk s →
        cw cfg (mapKidsM mapM' (visit cfg f r) n s).1 = cw cfg n := by
      intro r n s h0 ht hs
      have hh := isHook_mapKids cfg ok hcfg f r n s h0 ht hs
      simp only [mapKidsM, run_bind, run_pure] at hh ⊢
      have hl : (mapM' (visit cfg f r) n.kids s).1.length = n.kids.length := by
        have := mapVisit_spec ok (visit cfg f r) (hv r) n.kids s (nsL_kids_of_ns0 h0) (targetsOk_kids ht) hs
        exact (Forall2.length_eq this.2.2).symm
      rw [cw_eq cfg (n.withKids _), Node.kids_withKids n _ hl, cw_eq cfg n]
      simp only [isBadHook, hh, isHook_of_ns0 h0, Bool.false_and]
      rw [hkids r n.kids s (nsL_kids_of_ns0 h0) (targetsOk_kids ht) hs]
    cases n with
    | ident nm sp => simp only [visit, run_bind, run_pure]
    | block ss sp => simp only [visit, run_pure]
    | arrow ps b at' sp =>
      simp only [visit, run_pure]
      cases b <;> simp [toDdArrow, returnStmt, cw, cq_arrow, cq_block, cq_other]
    | unary op a sp =>
      simp only [visit]
      split
      · simp only [run_pure]
      · exact hgen root _ s h0 ht hs
    | bin op l r sp =>
      simp only [visit]
      split
      · simp only [run_bind]
        have hn1 := hgen false (.bin op l r sp) s h0 ht hs
        obtain ⟨ks', h1, hl, g, e, p⟩ := mapKids_spec' ok _ (hv false) (.bin op l r sp) s h0 ht hs
        generalize mapKidsM mapM' (visit cfg f false) (.bin op l r sp) s = K at h1 hn1
        obtain ⟨n1, s1⟩ := K
        simp only at h1 hn1 ⊢
        match ks', hl, h1 with
        | [l', r'], _, h1 =>
          simp only [withKids, List.getD_cons_zero, List.getD_cons_succ] at h1
          subst h1
          split
          · rename_i hop
            have hop' : op = "+" := by simpa using hop
            subst hop'
            simp only [run_bind, run_pure]
            have h2 := toDdBinary_W cfg l' r' sp s1
            generalize toDdBinary cfg (.bin "+" l' r' sp) s1 = X at h2
            obtain ⟨res, s2⟩ := X
            simp only at h2 ⊢
            rw [finish_fst]
            cases res with
            | none => exact hn1
            | some e' =>
              simp only [Option.getD_some]
              rw [h2 e' rfl, ← hn1]
              simp [cw]
          · simp only [run_bind, run_pure]
            rw [finish_fst]; exact hn1
      · exact hgen root _ s h0 ht hs
    | assign op l r sp =>
      simp only [visit]
      split
      · simp only [run_bind]
        have hn1 := hgen false (.assign op l r sp) s h0 ht hs
        obtain ⟨ks', h1, hl, g, e, p⟩ := mapKids_spec' ok _ (hv false) (.assign op l r sp) s h0 ht hs
        generalize mapKidsM mapM' (visit cfg f false) (.assign op l r sp) s = K at h1 hn1
        obtain ⟨n1, s1⟩ := K
        simp only at h1 hn1 ⊢
        match ks', hl, p, h1 with
        | [l', r'], _, p, h1 =>
          simp only [withKids, List.getD_cons_zero, List.getD_cons_succ] at h1
          subst h1
          split
          · rename_i hop
            simp only [run_bind, run_pure]
            have hts : tshape l' = true := by
              have h := targetsOk_self ht
              simp only [assignTargetOk, Bool.or_eq_true, bne_iff_ne, ne_eq] at h
              simp only [kids, Forall2] at p
              rcases h with h | h
              · exact absurd (by simpa using hop) h
              · exact p.1.1 h
            have h2 := toDdAssign_W cfg op l' r' sp s1 hts
            generalize toDdAssign cfg (.assign op l' r' sp) s1 = X at h2
            obtain ⟨res, s2⟩ := X
            simp only at h2 ⊢
            rw [finish_fst]
            cases res with
            | none => exact hn1
            | some e' => simp only [Option.getD_some]; rw [h2 e' rfl]; exact hn1
          · simp only [run_bind, run_pure]
            rw [finish_fst]; exact hn1
      · exact hgen root _ s h0 ht hs
    | tpl es qs sp =>
      simp only [visit]
      split
      · split
        · simp only [run_bind]
          have hn1 := hgen false (.tpl es qs sp) s h0 ht hs
          obtain ⟨ks', h1, hl, g, e, p⟩ := mapKids_spec' ok _ (hv false) (.tpl es qs sp) s h0 ht hs
          generalize mapKidsM mapM' (visit cfg f false) (.tpl es qs sp) s = K at h1 hn1
          obtain ⟨n1, s1⟩ := K
          simp only at h1 hn1 ⊢
          simp only [withKids] at h1
          subst h1
          have h2 := toDdTpl_W cfg (ks'.take es.length) (ks'.drop es.length) sp s1
          generalize toDdTpl cfg (.tpl (ks'.take es.length) (ks'.drop es.length) sp) s1 = X at h2
          obtain ⟨res, s2⟩ := X
          simp only at h2 ⊢
          rw [finish_fst]
          cases res with
          | none => exact hn1
          | some e' => simp only [Option.getD_some]; rw [h2 e' rfl]; exact hn1
        · simp only [run_pure]
      · exact hgen root _ s h0 ht hs
    | call c as sp =>
      simp only [visit, run_bind]
      have hn1 := hgen false (.call c as sp) s h0 ht hs
      obtain ⟨ks', h1, hl, g, e, p⟩ := mapKids_spec' ok _ (hv false) (.call c as sp) s h0 ht hs
      generalize mapKidsM mapM' (visit cfg f false) (.call c as sp) s = K at h1 hn1
      obtain ⟨n1, s1⟩ := K
      simp only at h1 hn1 ⊢
      match ks', hl, g, h1 with
      | c' :: as', _, g, h1 =>
        simp only [withKids, List.getD_cons_zero, List.drop_succ_cons, List.drop_zero] at h1
        subst h1
        simp only [goodL_cons, Bool.and_eq_true] at g
        simp only
        split
        · simp only [run_bind, run_pure]
          rw [finish_fst]; exact hn1
        · simp only [run_bind]
          have h2 := toDdCall_W cfg c' as' sp s1
          generalize toDdCall cfg (.call c' as' sp) s1 = X at h2
          obtain ⟨res, s2⟩ := X
          simp only at h2 ⊢
          cases res with
          | none =>
            simp only [run_bind, run_pure]
            rw [finish_fst]; exact hn1
          | some et =>
            obtain ⟨e', tag⟩ := et
            simp only [run_bind, run_pure]
            rw [finish_fst, h2 e' tag rfl, ← hn1]
            simp only [cw, cwL]
            rw [cq_call_user _ _ _ _ (hookName?_call_none _ _ g.1)]
    | optChain o b sp =>
      simp only [visit, run_bind]
      have hE := toDdCond_Q (notRobust cfg) cfg f (.optChain o b sp) s h0
      have hz := toDdCond_z cfg f (.optChain o b sp) s h0
      have hb := toDdCond_b cfg f (.optChain o b sp) s ((bad_zero_iff _).mpr ht)
      generalize toDdCond cfg f (.optChain o b sp) s = C at hE hz hb
      obtain ⟨⟨e', res⟩, s1⟩ := C
      simp only at hE hz hb ⊢
      have z2 : ns (res.getD e') = 0 := by
        cases res with
        | none => exact hz.1
        | some r => exact hz.2.1 r rfl
      have b2 : targetsOk (res.getD e') = true := by
        apply (bad_zero_iff _).mp
        cases res with
        | none => exact hb.1
        | some r => exact hb.2.1 r rfl
      have e0 : Eff s s1 0 := Eff.of_TS hz.2.2
      rw [finish_fst]
      have := hgen false (res.getD e') s1 z2 b2 (e0.stOk hs)
      rw [this]
      exact hE
    | _ =>
      simp only [visit]
      exact hgen root _ s h0 ht hs

end IastModel

import IastModel.Lemmas.ErAssign
namespace IastModel
open Node

theorem stripL_length : ∀ {a b : List Node}, stripL a = stripL b → a.length = b.length := by
  intro a
  induction a with
  | nil => intro b h; cases b <;> simp_all [stripL]
  | cons x xs ih =>
    intro b h
    cases b with
    | nil => simp [stripL] at h
    | cons y ys => simp only [stripL, List.cons.injEq] at h; simp [ih h.2]

theorem Er_strip_other {cx : Cx} {lo hi : Nat} {k : String} {sp : Span} {ns : List String} {vs' : List Node} {n : Node}
    (h : Er cx lo hi (.other k sp ns vs') n) : ∃ sp2 vs, n = .other k sp2 ns vs ∧ vs.length = vs'.length := by
  obtain ⟨X, Δ, eX, sX, _⟩ := h _ (BRg.refl _) cx.base cx.ext_base
  simp only [erase] at eX
  have hX : X = .other k sp ns (eraseL cx.base vs').1 := by
    have := congrArg Prod.fst eX; simpa using this.symm
  have hs := sX.1
  rw [hX] at hs
  have hlen : ∀ (l : List Node) (σ : Env), (eraseL σ l).1.length = l.length := by
    intro l
    induction l with
    | nil => intro σ; rfl
    | cons x xs ih => intro σ; simp only [eraseL, List.length_cons, ih]
  cases n with
  | other k2 sp2 ns2 vs =>
    simp only [strip, other.injEq] at hs
    obtain ⟨rfl, -, rfl, hv⟩ := hs
    exact ⟨sp2, vs, rfl, by rw [← stripL_length hv, hlen]⟩
  | _ => simp [strip] at hs

theorem Er_strip_member {cx : Cx} {lo hi : Nat} {o' p' : Node} {sp : Span} {n : Node}
    (h : Er cx lo hi (.member o' p' sp) n) : ∃ o p sp2, n = .member o p sp2 := by
  obtain ⟨X, Δ, eX, sX, _⟩ := h _ (BRg.refl _) cx.base cx.ext_base
  simp only [erase] at eX
  have hX : X = .member (erase cx.base o').1 (erase (erase cx.base o').2 p').1 sp := by
    have := congrArg Prod.fst eX; simpa using this.symm
  have hs := sX.1
  rw [hX] at hs
  cases n with
  | member o p sp2 => exact ⟨_, _, _, rfl⟩
  | _ => simp [strip] at hs

theorem splitComputedKey_Er (cx : Cx) (lo hi : Nat) (csp : Span) (e' e : Node) (sp : Span) (s : St) (hw : HypW cx hi s)
    (hE : Er cx lo hi e' e) :
    PairEr cx lo hi (.other "Computed" csp ["expression"] [e]) (.other "Computed" csp ["expression"] [e])
      (splitComputedKey csp e' sp s).1.1 (splitComputedKey csp e' sp s).1.2 s (splitComputedKey csp e' sp s).2 := by
  unfold splitComputedKey
  simp only [run_bind, run_pure]
  have h := hoistTargetPart_Er cx lo hi e' e sp s hw hE
  generalize hoistTargetPart e' sp s = R at h ⊢
  obtain ⟨⟨tk, okk⟩, s'⟩ := R
  exact pairEr_other1 "Computed" csp ["expression"] h

theorem splitProp_Er (cx : Cx) (lo hi : Nat) (prop' prop : Node) (sp : Span) (s : St) (hw : HypW cx hi s)
    (hE : Er cx lo hi prop' prop) (hD : Deep lo hi prop' prop) :
    PairEr cx lo hi prop prop (splitProp prop' sp s).1.1 (splitProp prop' sp s).1.2 s (splitProp prop' sp s).2 := by
  unfold splitProp
  split
  · rename_i csp e'
    split
    · obtain ⟨sp2, vs, rfl, hl⟩ := Er_strip_other hE
      match vs, hl with
      | [e], _ =>
        simp only [Deep, DeepL] at hD
        obtain ⟨_, rfl, _, hEe, _, _⟩ := hD
        exact splitComputedKey_Er cx lo hi sp2 e' e sp s hw (hEe.er cx)
    · simp only [run_pure]; exact pairEr_same s hw hE
  · simp only [run_pure]; exact pairEr_same s hw hE

theorem pairEr_paren {cx : Cx} {lo hi : Nat} {a ao ta oa : Node} {psp : Span} {s s1 : St}
    (hl : (ta.span == psp) = false) (h : PairEr cx lo hi a ao ta oa s s1) :
    PairEr cx lo hi (.paren a psp) ao (.paren ta psp) oa s s1 := by
  obtain ⟨c1, P1⟩ := h
  refine ⟨c1, ?_⟩
  intro tk'' htk σ hσ
  obtain ⟨ta'', rfl, hta⟩ := htk.paren_inv
  obtain ⟨Ta, Δa, eTa, sTa, wa, Ra⟩ := P1 ta'' hta σ hσ
  have hl' : (ta''.span == psp) = false := by rw [BRg.span _ _ hta]; exact hl
  refine ⟨.paren Ta psp, Δa, by rw [erase_paren_loose _ _ _ hl', eTa], ?_, wa, Ra⟩
  exact ⟨by simp only [strip, sTa.1], Or.inl rfl, by simp [noSp, unSpread]⟩

theorem span_splitTarget (sp : Span) : ∀ (left : Node) (s : St), (splitMemberTarget left sp s).1.1.span = left.span := by
  apply Node.ind
  intro left ih s
  unfold splitMemberTarget
  split
  · split
    · simp only [run_bind, run_pure]
      split <;> rfl
    · rfl
  · split <;> rfl
  · split
    · rfl
    · rfl
  · rfl

/-- `split_simple_target` -/
theorem splitMemberTarget_Er (cx : Cx) (lo hi : Nat) (sp : Span) : ∀ (left' left : Node) (s : St), HypW cx hi s →
    Er cx lo hi left' left → Deep lo hi left' left →
    ∃ eo, PairEr cx lo hi left eo (splitMemberTarget left' sp s).1.1 (splitMemberTarget left' sp s).1.2 s
      (splitMemberTarget left' sp s).2 := by
  apply Node.ind
  intro left' ih left s hw hE hD
  unfold splitMemberTarget
  split
  · rename_i obj' prop' msp
    obtain ⟨obj, prop, sp2, rfl⟩ := Er_strip_member hE
    simp only [Deep] at hD
    obtain ⟨rfl, hEo, hEp, hDo, hDp, _⟩ := hD
    split
    · simp only [run_bind, run_pure]
      refine ⟨.member obj prop sp2, ?_⟩
      split
      · -- the object is read again as it is
        simp only [run_bind, run_pure]
        have h1 : PairEr cx lo hi obj obj obj' obj' s s := pairEr_same s hw (hEo.er cx)
        have h2 := splitProp_Er cx lo hi prop' prop sp s hw (hEp.er cx) hDp
        generalize splitProp prop' sp s = R2 at h2 ⊢
        obtain ⟨⟨tprop, oprop⟩, s2⟩ := R2
        exact pairEr_two (fun a b => .member a b sp2) (hW_member sp2) (hS_member sp2) (hWi_member sp2) hw h1 h2
      · simp only [run_bind, run_pure]
        have h1 := hoistTargetPart_Er cx lo hi obj' obj sp s hw (hEo.er cx)
        generalize hoistTargetPart obj' sp s = R1 at h1 ⊢
        obtain ⟨⟨tobj, oobj⟩, s1⟩ := R1
        have h2 := splitProp_Er cx lo hi prop' prop sp s1 (hw.mono h1.1) (hEp.er cx) hDp
        generalize splitProp prop' sp s1 = R2 at h2 ⊢
        obtain ⟨⟨tprop, oprop⟩, s2⟩ := R2
        exact pairEr_two (fun a b => .member a b sp2) (hW_member sp2) (hS_member sp2) (hWi_member sp2) hw h1 h2
    · simp only [run_pure]
      exact ⟨_, pairEr_same s hw hE⟩
  · rename_i ssp sup' prop'
    split
    · simp only [run_bind, run_pure]
      obtain ⟨sp2, vs, rfl, hl⟩ := Er_strip_other hE
      match vs, hl with
      | [sup, prop], _ =>
        simp only [Deep, DeepL] at hD
        obtain ⟨_, rfl, _, hEs, _, hEp, hDp, _⟩ := hD
        have h1 : PairEr cx lo hi sup sup sup' sup' s s := pairEr_same s hw (hEs.er cx)
        have h2 := splitProp_Er cx lo hi prop' prop sp s hw (hEp.er cx) hDp
        generalize splitProp prop' sp s = R2 at h2 ⊢
        obtain ⟨⟨tprop, oprop⟩, s2⟩ := R2
        exact ⟨_, pairEr_two (fun a b => .other "SuperPropExpression" sp2 ["obj", "property"] [a, b])
          (hW_other2 _ _ _) (hS_other2 _ _ _) (hWi_other2 _ _ _) hw h1 h2⟩
    · simp only [run_pure]
      exact ⟨_, pairEr_same s hw hE⟩
  · rename_i inner' psp
    split
    · rename_i hsi
      simp only [run_bind, run_pure]
      simp only [Deep] at hD
      obtain ⟨inner, rfl, hloose, hEi, hDi⟩ := hD hsi
      obtain ⟨eo, h⟩ := ih inner' (by simp [kids]) inner s hw (hEi.er cx) hDi
      have hspan := span_splitTarget sp inner' s
      generalize splitMemberTarget inner' sp s = R at h hspan ⊢
      obtain ⟨⟨t, o⟩, s'⟩ := R
      simp only at hspan
      exact ⟨eo, pairEr_paren (by rw [hspan]; exact hloose) h⟩
    · simp only [run_pure]
      exact ⟨_, pairEr_same s hw hE⟩
  · simp only [run_pure]
    exact ⟨_, pairEr_same s hw hE⟩

end IastModel

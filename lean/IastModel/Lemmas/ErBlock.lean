import IastModel.Lemmas.ErBlk3
import IastModel.Lemmas.BlockSpec
/-
  The block visitor: every block it works on comes back as a block that erases to the statements it had
  (`blockVisit_BRg`), for any fuel and any state, unless the run is refused.
-/
namespace IastModel
open Node
variable {cfg : Config}

theorem eraseL_append (σ : Env) (xs ys : List Node) :
    eraseL σ (xs ++ ys) = ((eraseL σ xs).1 ++ (eraseL (eraseL σ xs).2 ys).1, (eraseL (eraseL σ xs).2 ys).2) := by
  induction xs generalizing σ with
  | nil => simp [eraseL]
  | cons x xs ih => simp only [List.cons_append, eraseL, ih, List.cons_append]

theorem eraseL_length (σ : Env) (xs : List Node) : (eraseL σ xs).1.length = xs.length := by
  induction xs generalizing σ with
  | nil => rfl
  | cons x xs ih => simp only [eraseL, List.length_cons, ih]

/-- the statement test `erase` uses to find the injected `let` of a block at position `sp` -/
def isLetAt (sp : Span) (s : Node) : Bool := (injectedLet? s).isSome && s.span == sp

/-- neither the statement nor any replacement of its nested blocks is taken for the injected `let` -/
def NL (sp : Span) (k' : Node) : Prop := ∀ k'', BRg k' k'' → isLetAt sp k'' = false

theorem isLetAt_letDecl (ids : List Nat) (sp : Span) (h : ids ≠ []) : isLetAt sp (letDecl ids sp) = true := by
  unfold isLetAt letDecl injectedLet?
  simp only [Node.span, span_beq_refl', Bool.and_true]
  have h1 : (List.map declaratorTemp? (List.map (fun n => Node.other "VariableDeclarator" sp ["id", "init", "definite"]
      [tempIdent n, Node.atom "null", Node.atom "false"]) ids)) = ids.map some := by
    simp [List.map_map, Function.comp_def, declaratorTemp?, tempIdent]
  simp only [h1]
  have h2 : (ids.map some).isEmpty = false := by cases ids <;> simp_all
  have h3 : (ids.map (some : Nat → Option Nat)).all Option.isSome = true := by simp
  simp [h2, h3]

theorem noBlk_letDecl (ids : List Nat) (sp : Span) : noBlk (letDecl ids sp) = true := by
  unfold letDecl
  rw [noBlk_eq]
  simp only [isBlockNode, kids, noBlkL_cons, noBlkL_nil, Bool.not_false, Bool.true_and, Bool.and_true]
  have ha : ∀ s, noBlk (Node.atom s) = true := by intro s; rw [noBlk_eq]; rfl
  simp only [ha, Bool.true_and]
  rw [noBlk_eq]
  simp only [isBlockNode, kids, Bool.not_false, Bool.true_and]
  unfold noBlkL
  rw [List.all_eq_true]
  intro d hd
  simp only [List.mem_map] at hd
  obtain ⟨n, _, rfl⟩ := hd
  rw [noBlk_eq]
  simp only [isBlockNode, kids, noBlkL_cons, noBlkL_nil, noBlk_tempIdentE, ha]
  rfl

theorem inert_letDecl (ids : List Nat) (sp : Span) : Inert (letDecl ids sp) := by
  intro σ
  unfold letDecl
  simp only [erase, eraseL]
  have : ∀ (l : List Nat) (σ : Env), (eraseL σ (l.map fun n => Node.other "VariableDeclarator" sp ["id", "init", "definite"]
      [tempIdent n, Node.atom "null", Node.atom "false"])).2 = σ := by
    intro l
    induction l with
    | nil => intro σ; rfl
    | cons n l ih => intro σ; simp only [List.map_cons, eraseL, erase, tempIdent]; exact ih σ
  exact this ids σ

/-- statements of a block, as the well-formedness of the block constrains them -/
def stmtOk (sp : Span) (k : Node) : Bool :=
  if sp.isDummy then (match k with | .other kk _ _ _ => kk != "VariableDeclaration" | _ => false) else k.span != sp

theorem isOptN_false (k : Node) : isOptN k = false := rfl

theorem visit_other (cfg : Config) (f : Nat) (root : Bool) (kk : String) (sp : Span) (ns : List String) (vs : List Node) (s : St) :
    ∃ vs', (visit cfg f root (.other kk sp ns vs) s).1 = .other kk sp ns vs' := by
  cases f with
  | zero => exact ⟨vs, by simp [visit, run_bind, run_pure]⟩
  | succ f => exact ⟨(mapM' (visit cfg f root) vs s).1, by simp only [visit, mapKidsM_run, withKids, kids]⟩

theorem visit_NL (cfg : Config) (f : Nat) (sp : Span) (k : Node) (s : St) (hs : srcOk k = true) (hn : noOpt cfg k = true)
    (hk : stmtOk sp k = true) : NL sp (visit cfg f true k s).1 := by
  intro k'' hb
  unfold isLetAt
  by_cases hd : sp.isDummy = true
  · simp only [stmtOk, hd, if_true] at hk
    cases k with
    | other kk ksp ns vs =>
      obtain ⟨vs', hv⟩ := visit_other cfg f true kk ksp ns vs s
      rw [hv] at hb
      obtain ⟨vs'', rfl, _⟩ := hb.other_inv
      have hkk : kk ≠ "VariableDeclaration" := by simpa using hk
      have : injectedLet? (.other kk ksp ns vs'') = none := by
        unfold injectedLet?
        split
        · rename_i heq
          simp only [other.injEq] at heq
          exact absurd heq.1 hkk
        · rfl
      simp [this]
    | _ => simp at hk
  · simp only [stmtOk, hd, Bool.false_eq_true, if_false] at hk
    obtain ⟨hi, hv⟩ := visit_VRes cfg f true k s hs hn
    have hspan : k''.span = k.span := by
      rw [BRg.span _ _ hb]
      rcases hv.2.1 with h | h
      · exact h
      · rw [isOptN_false k] at h; exact absurd h.1 (by simp)
    have : (k''.span == sp) = false := by rw [hspan]; simpa [bne] using hk
    simp [this]

theorem srcOk_block_stmts {ss : List Node} {sp : Span} (h : srcOk (.block ss sp) = true) : ∀ k ∈ ss, stmtOk sp k = true := by
  have h0 := srcOk_self h
  simp only [srcNode] at h0
  intro k hk
  unfold stmtOk
  split at h0
  · rename_i hd
    simp only [hd, if_true]
    exact List.all_eq_true.mp h0 k hk
  · rename_i hd
    simp only [hd, if_false]
    exact List.all_eq_true.mp h0 k hk

theorem mapM'_forall (g : Node → M Node) (P : Node → Prop) : ∀ (ks : List Node) (s : St), (∀ k ∈ ks, ∀ s, P (g k s).1) →
    ∀ x ∈ (mapM' g ks s).1, P x := by
  intro ks
  induction ks with
  | nil => intro s _ x hx; simp [mapM', run_pure] at hx
  | cons k ks ih =>
    intro s h x hx
    simp only [mapM', run_bind, run_pure, List.mem_cons] at hx
    rcases hx with rfl | hx
    · exact h k (by simp) s
    · exact ih _ (fun y hy => h y (by simp [hy])) x hx

theorem NL_BRgL {sp : Span} : ∀ {xs ys : List Node}, (∀ x ∈ xs, NL sp x) → BRgL xs ys → ∀ y ∈ ys, isLetAt sp y = false := by
  intro xs
  induction xs with
  | nil => intro ys _ hb y hy; rw [BRgL.nil_inv hb] at hy; cases hy
  | cons x xs ih =>
    intro ys h hb y hy
    obtain ⟨b, bs, rfl, hxb, hbs⟩ := BRgL.cons_inv hb
    rcases List.mem_cons.mp hy with rfl | hy
    · exact h x (by simp) _ hxb
    · exact ih (fun z hz => h z (by simp [hz])) hbs y hy

theorem findIdx_none_of {p : Node → Bool} {l : List Node} (h : ∀ y ∈ l, p y = false) : l.findIdx? p = none := by
  rw [List.findIdx?_eq_none_iff]; exact h

theorem findIdx_at {p : Node → Bool} {pre post : List Node} {x : Node} (h : ∀ y ∈ pre, p y = false) (hx : p x = true) :
    (pre ++ x :: post).findIdx? p = some pre.length := by
  induction pre with
  | nil => simp [List.findIdx?_cons, hx]
  | cons a as ih =>
    have ha := h a (by simp)
    simp only [List.cons_append, List.findIdx?_cons, ha, Bool.false_eq_true, if_false]
    rw [ih (fun y hy => h y (by simp [hy]))]
    simp

theorem dropAt_mid (pre post : List Node) (x : Node) : dropAt (pre ++ x :: post) (some pre.length) = pre ++ post := by
  simp [dropAt]

theorem Forall2_Sim_span : ∀ {Xs ks : List Node}, Forall2 ESim Xs ks →
    Xs.map Node.span = ks.map Node.span := by
  intro Xs
  induction Xs with
  | nil => intro ks h; cases ks <;> simp_all [Forall2]
  | cons x xs ih =>
    intro ks h
    cases ks with
    | nil => simp [Forall2] at h
    | cons y ys =>
      simp only [Forall2] at h
      simp only [List.map_cons, List.cons.injEq]
      refine ⟨?_, ih h.2⟩
      rcases h.1.2.1 with hh | hh
      · exact hh
      · rw [isOptN_false y] at hh; exact absurd hh.1 (by simp)

/-- the list of statements a block visit leaves, against the statements it started from -/
theorem goodBlk_of (ss ss1 : List Node) (sp : Span) (ids : List Nat) (hi : Nat) (ss2 : List Node)
    (hkl : KL 0 hi ss1 ss) (hnl : ∀ x ∈ ss1, NL sp x)
    (hb : BRgL (if ids.isEmpty then ss1 else insertAt ss1 (variableInsertionIndex ss1) [letDecl ids sp]) ss2) :
    ∀ σ, ∃ es, erase σ (.block ss2 sp) = (.block es sp, σ) ∧ BlkSim es ss := by
  intro σ
  by_cases he : ids.isEmpty = true
  · simp only [he, if_true] at hb
    obtain ⟨Xs, Δ, eX, sX, _⟩ := eraseL_KL hkl ss2 hb σ
    refine ⟨Xs, ?_, Forall2_Sim_strip sX, Forall2_Sim_span sX⟩
    simp only [erase, eX]
    have : injectedLetAt sp ss2 = none := findIdx_none_of (NL_BRgL hnl hb)
    simp [this, dropAt]
  · simp only [he, Bool.false_eq_true, if_false] at hb
    have hne : ids ≠ [] := by simpa using he
    unfold insertAt at hb
    obtain ⟨k12, post2, rfl, h12, hpost⟩ := BRgL.append_inv hb
    obtain ⟨pre2, l2, rfl, hpre, hl⟩ := BRgL.append_inv h12
    obtain ⟨let2, rfl, hlet⟩ := BRgL.single_inv hl
    rw [BRg_noBlk (noBlk_letDecl ids sp) hlet]
    have hall : BRgL ss1 (pre2 ++ post2) := by
      have := BRgL.append hpre hpost
      rwa [List.take_append_drop] at this
    obtain ⟨Xs, Δ, eX, sX, _⟩ := eraseL_KL hkl (pre2 ++ post2) hall σ
    rw [eraseL_append] at eX
    have hXs : Xs = (eraseL σ pre2).1 ++ (eraseL (eraseL σ pre2).2 post2).1 := (congrArg Prod.fst eX).symm
    refine ⟨Xs, ?_, Forall2_Sim_strip sX, Forall2_Sim_span sX⟩
    have hnl2 := NL_BRgL hnl hall
    have hidx : injectedLetAt sp (pre2 ++ [letDecl ids sp] ++ post2) = some pre2.length := by
      unfold injectedLetAt
      rw [List.append_assoc]
      exact findIdx_at (fun y hy => hnl2 y (by simp [hy])) (isLetAt_letDecl ids sp hne)
    simp only [erase, hidx]
    rw [List.append_assoc, eraseL_append]
    simp only [List.singleton_append, eraseL]
    rw [inert_letDecl ids sp (eraseL σ pre2).2]
    have hlen : (eraseL σ pre2).1.length = pre2.length := eraseL_length _ _
    rw [← hlen, dropAt_mid, hXs]

end IastModel

namespace IastModel
open Node

theorem blkOk_of_noBlk : ∀ n : Node, noBlk n = true → blkOk cfg n = true := by
  apply Node.ind
  intro n ih h
  rw [noBlk_eq, Bool.and_eq_true] at h
  rw [blkOk_eq, Bool.and_eq_true]
  refine ⟨by simp only [bq]; rw [Bool.or_eq_true]; exact Or.inl h.1, ?_⟩
  apply blkOkL_of
  intro k hk
  have : noBlk k = true := by
    have := h.2; unfold noBlkL at this; exact List.all_eq_true.mp this k hk
  exact ih k hk this

theorem mapM'_BRgL (g : Node → M Node) (hc : ∀ k s, s.status = .cancelled → (g k s).2.status = .cancelled) :
    ∀ (ks : List Node) (s : St), (∀ k ∈ ks, ∀ s, (g k s).2.status ≠ .cancelled → BRg k (g k s).1) →
      (mapM' g ks s).2.status ≠ .cancelled → BRgL ks (mapM' g ks s).1 := by
  intro ks
  induction ks with
  | nil => intro s _ _; exact BRgL.nil
  | cons k ks ih =>
    intro s h hfin
    simp only [mapM', run_bind, run_pure] at hfin ⊢
    have h1 : (g k s).2.status ≠ .cancelled := by
      intro hcn
      exact hfin (mapM'_canc g hc ks _ hcn)
    exact BRgL.cons (h k (by simp) s h1) (ih _ (fun x hx => h x (by simp [hx])) hfin)

/-- **the block visitor only replaces block statements by block statements that erase to them** (unless the
    run is refused) -/
theorem blockVisit_BRg (cfg : Config) (opFuel : Nat) : ∀ (f : Nat) (t : Node) (s : St), blkOk cfg t = true →
    (blockVisit cfg opFuel f t s).2.status ≠ .cancelled → BRg t (blockVisit cfg opFuel f t s).1 := by
  intro f
  induction f with
  | zero => intro t s _ _; simp only [blockVisit, run_bind, run_pure]; exact BRg.refl t
  | succ f ih =>
    intro t s hb hfin
    have hkids : ∀ (ks : List Node) (s' : St), blkOkL cfg ks = true → (mapM' (blockVisit cfg opFuel f) ks s').2.status ≠ .cancelled →
        BRgL ks (mapM' (blockVisit cfg opFuel f) ks s').1 := by
      intro ks s' hk hf
      exact mapM'_BRgL _ (fun k s hs => blockVisit_canc cfg opFuel f k s hs) ks s'
        (fun k hk' s'' hf' => ih k s'' (blkOkL_mem hk k hk') hf') hf
    by_cases hblk : isBlockNode t = true
    · obtain ⟨ss, sp, rfl⟩ : ∃ ss sp, t = Node.block ss sp := by cases t <;> simp_all [isBlockNode]
      have hq : Qb cfg (.block ss sp) = true := by
        rw [blkOk_eq, Bool.and_eq_true] at hb
        simpa [bq, isBlockNode] using hb.1
      simp only [Qb, Bool.and_eq_true] at hq
      have hsk := srcOk_kids hq.1
      have hnk := noOpt_kids hq.2
      have hsc : s.status ≠ .cancelled := by
        intro hcn; exact hfin (blockVisit_canc cfg opFuel (f + 1) _ s hcn)
      rw [blockVisit_block cfg opFuel f ss sp s hsc] at hfin ⊢
      by_cases hd : variablesContainPossibleDuplicate (mapKidsM mapM' (visit cfg opFuel true) (.block ss sp) (resetProvider s)).2.vars
            (tempPrefix cfg.localVarPrefix) = true
      · rw [if_pos hd] at hfin
        exact absurd rfl hfin
      · rw [if_neg hd] at hfin ⊢
        have hin : mapKidsM mapM' (visit cfg opFuel true) (.block ss sp) (resetProvider s) =
            (.block (mapM' (visit cfg opFuel true) ss (resetProvider s)).1 sp, (mapM' (visit cfg opFuel true) ss (resetProvider s)).2) := by
          rw [mapKidsM_run]; rfl
        rw [hin] at hfin ⊢
        dsimp only at hfin ⊢
        -- the statements after the operation visitor
        have hkr := mapM'_KRes (visit cfg opFuel true) true ss
          (fun k hk s' => visit_VRes cfg opFuel true k s' (hsk k (by simp [kids, hk])) (hnk k (by simp [kids, hk]))) (resetProvider s)
        obtain ⟨hi, hkl⟩ := hkr
        have hblk1 : blkOkL cfg (mapM' (visit cfg opFuel true) ss (resetProvider s)).1 = true :=
          mapM'_blk _ _ _ (fun k hk s' => visit_blk cfg opFuel true k s' (hsk k (by simp [kids, hk])) (hnk k (by simp [kids, hk])))
        have hnl : ∀ x ∈ (mapM' (visit cfg opFuel true) ss (resetProvider s)).1, NL sp x :=
          mapM'_forall _ (NL sp) ss _ (fun k hk s' => visit_NL cfg opFuel sp k s' (hsk k (by simp [kids, hk]))
            (hnk k (by simp [kids, hk])) (srcOk_block_stmts hq.1 k hk))
        generalize mapM' (visit cfg opFuel true) ss (resetProvider s) = K at hfin hkl hblk1 hnl ⊢
        obtain ⟨ss1, s1⟩ := K
        dsimp only at hfin hkl hblk1 hnl ⊢
        have hins : insertVariableDeclaration s1.idents (.block ss1 sp) =
            .block (if s1.idents.isEmpty then ss1 else insertAt ss1 (variableInsertionIndex ss1) [letDecl s1.idents sp]) sp := by
          simp only [insertVariableDeclaration]
          by_cases hie : s1.idents.isEmpty = true <;> simp [hie]
        rw [hins] at hfin ⊢
        rw [mapKidsM_run] at hfin ⊢
        simp only [kids, withKids] at hfin ⊢
        have hblk2 : blkOkL cfg (if s1.idents.isEmpty then ss1 else insertAt ss1 (variableInsertionIndex ss1) [letDecl s1.idents sp]) = true := by
          split
          · exact hblk1
          · unfold insertAt
            simp only [blkOkL_append, blkOkL_cons, blkOkL_nil, Bool.and_true, Bool.and_eq_true]
            exact ⟨⟨blkOkL_of (fun k hk => blkOkL_mem hblk1 k (List.mem_of_mem_take hk)), blkOk_of_noBlk _ (noBlk_letDecl _ _)⟩,
              blkOkL_of (fun k hk => blkOkL_mem hblk1 k (List.mem_of_mem_drop hk))⟩
        have hbr := hkids _ s1 hblk2 hfin
        exact BRg.blk ss _ sp (goodBlk_of ss ss1 sp s1.idents hi _ hkl hnl hbr)
    · simp only [Bool.not_eq_true] at hblk
      rw [blockVisit_generic cfg opFuel f t hblk] at hfin ⊢
      rw [mapKidsM_run] at hfin ⊢
      exact BRg.node' hblk (hkids t.kids s (blkOkL_of (blkOk_kids hb)) hfin)

end IastModel

namespace IastModel
open Node

/-- the whole visitor pass over a program: unless refused, the output is `p1`, or `p1` with the file
    prologue inserted, where `p1` is the program with block statements replaced by blocks that erase to them -/
theorem transformProgram_BRg (cfg : Config) (fuel : Nat) (p : Node) (hs : srcOk p = true) (hno : noOpt cfg p = true)
    (hnb : isBlockNode p = false) (hnc : (transformProgram cfg fuel p).status ≠ .cancelled) :
    ∃ p1, BRg p p1 ∧
      (transformProgram cfg fuel p).out =
        (if (transformProgram cfg fuel p).status = .modified then insertPrologue (prologue cfg.dsts) p1 else p1) := by
  unfold transformProgram at hnc ⊢
  simp only [StateT.run] at hnc ⊢
  by_cases hr : hasReserved (tempPrefix cfg.localVarPrefix) p = true
  · exact absurd (programVisit_reserved cfg _ fuel p {} hr) hnc
  · simp only [Bool.not_eq_true] at hr
    simp only [programVisit_eq cfg _ fuel p {} hr] at hnc ⊢
    refine ⟨(mapKidsM mapM' (blockVisit cfg fuel fuel) p {}).1, ?_, rfl⟩
    rw [mapKidsM_run] at hnc ⊢
    dsimp only at hnc ⊢
    have hb := blkOk_src p hs hno
    refine BRg.node' hnb ?_
    exact mapM'_BRgL _ (fun k s h => blockVisit_canc cfg fuel fuel k s h) p.kids {}
      (fun k hk s hf => blockVisit_BRg cfg fuel fuel k s (blkOk_kids hb k hk) hf) hnc

end IastModel

import IastModel.Lemmas.EffVisit
import IastModel.Lemmas.DirectivePass
import IastModel.Lemmas.TempsVisit
namespace IastModel
open Node

theorem letDecl_eff (idents : List Nat) (sp : Span) : eff (letDecl idents sp) = 0 := by
  have h1 : ∀ l : List Nat, effL (l.map fun n => Node.other "VariableDeclarator" sp ["id", "init", "definite"]
      [tempIdent n, .atom "null", .atom "false"]) = 0 := by
    intro l; induction l with
    | nil => rfl
    | cons x xs ih =>
      simp only [tempIdent] at ih ⊢
      have hc : ¬ "VariableDeclarator" ∈ effKinds := by decide
      simp [eff_other, hc, ih]
  have hc : ¬ "VariableDeclaration" ∈ effKinds := by decide
  simp [letDecl, eff_other, hc, h1]

theorem insertVar_eff (idents : List Nat) (ks : List Node) (sp : Span) :
    ∃ ks2, insertVariableDeclaration idents (.block ks sp) = .block ks2 sp ∧ effL ks2 = effL ks := by
  simp only [insertVariableDeclaration]
  by_cases he : idents.isEmpty = true
  · exact ⟨ks, by simp only [he, if_true], rfl⟩
  · refine ⟨insertAt ks (variableInsertionIndex ks) [letDecl idents sp], by simp only [he, Bool.false_eq_true, if_false], ?_⟩
    have : effL (ks.take (variableInsertionIndex ks)) + effL (ks.drop (variableInsertionIndex ks)) = effL ks := by
      conv => rhs; rw [← List.take_append_drop (variableInsertionIndex ks) ks]
      rw [effL_append]
    simp only [insertAt, effL_append, effL_cons, effL_nil, letDecl_eff]
    omega

theorem isTempIdent_blockVisit (cfg : Config) (opFuel f : Nat) (n : Node) (s : St) :
    isTempIdent (blockVisit cfg opFuel f n s).1 = isTempIdent n := by
  by_cases ht : isTempIdent n = true
  · have hk : n.kids = [] := by cases n <;> simp_all [isTempIdent, kids]
    have hb : isBlockNode n = false := by cases n <;> simp_all [isTempIdent, isBlockNode]
    rw [(blockVisit_nokids cfg opFuel f n s hk hb).1]
  · simp only [Bool.not_eq_true] at ht
    rw [ht]
    cases f with
    | zero => simpa [blockVisit, run_bind, run_pure] using ht
    | succ f =>
      by_cases hb : isBlockNode n = true
      · cases n with
        | block ss sp =>
          obtain ⟨ss', h'⟩ := blockVisit_isBlock cfg opFuel (f + 1) ss sp s
          rw [h']; rfl
        | _ => simp [isBlockNode] at hb
      · simp only [Bool.not_eq_true] at hb
        rw [blockVisit_generic cfg opFuel f n hb]
        simp only [mapKidsM, run_bind, run_pure, isTempIdent_withKids]
        exact ht

end IastModel

namespace IastModel
open Node

def BE (n : Node) (R : Node × St) : Prop := StOk R.2 → eff R.1 = eff n

theorem mapBlock_E (ok) (g : Node → M Node)
    (hb : ∀ k s, StOk s → goodW ok true k = true → BE k (g k s))
    (hc : ∀ k s, s.status = .cancelled → (g k s).2.status = .cancelled) :
    ∀ (ks : List Node) (s : St), StOk s → goodL ok true ks = true → StOk (mapM' g ks s).2 →
      effL (mapM' g ks s).1 = effL ks := by
  intro ks
  induction ks with
  | nil => intro s _ _ _; rfl
  | cons x xs ih =>
    intro s hs hg hfin
    simp only [goodL_cons, Bool.and_eq_true] at hg
    simp only [mapM', run_bind, run_pure] at hfin ⊢
    have h1 := hb x s hs hg.1
    generalize hR1 : g x s = R1 at h1 hfin
    obtain ⟨x', s1⟩ := R1
    simp only at hfin ⊢
    have hs1 : StOk s1 := by
      intro hcn
      exact hfin (mapM'_canc g hc xs s1 hcn)
    have e1 := h1 hs1
    have e2 := ih s1 hs1 hg.2 hfin
    simp only at e1
    simp only [effL_cons, e1, e2]

/-- the block visitor keeps every effect node exactly once (when the run is not cancelled) -/
theorem blockVisit_E (ok) (cfg : Config) (hcfg : CfgOk ok cfg) (opFuel : Nat) : ∀ (f : Nat) (n : Node) (s : St),
    StOk s → goodW ok true n = true → BE n (blockVisit cfg opFuel f n s) := by
  intro f
  induction f with
  | zero => intro n s _ _ _; simp [blockVisit, run_bind, run_pure]
  | succ f ih =>
    intro n s hs hg
    have hlist := mapBlock_E ok (blockVisit cfg opFuel f) (fun k s hs hg => ih k s hs hg)
      (fun k s h => blockVisit_canc cfg opFuel f k s h)
    have hspec := mapBlock_spec ok (blockVisit cfg opFuel f)
      (fun k s hs hg => blockVisit_spec ok cfg hcfg opFuel f k s hs hg)
      (fun k s h => blockVisit_canc cfg opFuel f k s h)
    by_cases hb : isBlockNode n = true
    · cases n with
      | block ss sp =>
        rw [good_block] at hg
        simp only [if_true, Bool.and_eq_true, beq_iff_eq] at hg
        rw [blockVisit_block cfg opFuel f ss sp s hs]
        have hs0 : StOk (resetProvider s) := hs
        have t0 : TS (resetProvider s) s := ⟨rfl, rfl, id⟩
        have h0 : ns (.block ss sp) = 0 := by simp [hg.1]
        have htg : targetsOk (.block ss sp) = true := (bad_zero_iff _).mp (by simp [hg.2])
        obtain ⟨ks', h1, hl, g, e, p⟩ := mapKids_spec' ok (visit cfg opFuel true)
          (fun k s h0 ht hs => visit_spec ok cfg hcfg opFuel true k s h0 ht hs) (.block ss sp) (resetProvider s) h0 htg hs0
        -- the statements, visited one after the other
        have hk : ∀ (ks : List Node) (s : St), nsL ks = 0 → (∀ k ∈ ks, targetsOk k = true) → StOk s →
            effL (mapM' (visit cfg opFuel true) ks s).1 = effL ks := by
          intro ks
          induction ks with
          | nil => intro s _ _ _; rfl
          | cons k ks ihk =>
            intro s hz htk hs
            simp only [nsL_cons] at hz
            simp only [mapM', run_bind, run_pure, effL_cons]
            have hk1 := visit_E cfg ok hcfg opFuel true k s (by omega) (htk k (by simp)) hs
            have hsp := visit_spec ok cfg hcfg opFuel true k s (by omega) (htk k (by simp)) hs
            rw [hk1, ihk _ (by omega) (fun x hx => htk x (by simp [hx])) (hsp.2.1.stOk hs)]
        have he1 : effL (mapM' (visit cfg opFuel true) ss (resetProvider s)).1 = effL ss :=
          hk ss (resetProvider s) hg.1 (targetsOk_kids htg) hs0
        have hK : mapKidsM mapM' (visit cfg opFuel true) (.block ss sp) (resetProvider s) =
            (.block (mapM' (visit cfg opFuel true) ss (resetProvider s)).1 sp, (mapM' (visit cfg opFuel true) ss (resetProvider s)).2) := by
          simp [mapKidsM, run_bind, run_pure, withKids, kids]
        rw [hK] at h1 e ⊢
        generalize mapM' (visit cfg opFuel true) ss (resetProvider s) = K at h1 e he1
        obtain ⟨ks1, s1⟩ := K
        simp only [withKids] at h1 e he1 ⊢
        have hks : ks' = ks1 := by injection h1 with h; exact h.symm
        subst hks
        by_cases hd : variablesContainPossibleDuplicate s1.vars (tempPrefix cfg.localVarPrefix) = true
        · simp only [hd, if_true]
          intro hfin
          exact absurd rfl hfin
        · simp only [hd, Bool.false_eq_true, if_false]
          obtain ⟨ks2, hins, g2, n2⟩ := insertVar_spec ok s1.idents ks' sp g
          obtain ⟨ks2', hins', e2⟩ := insertVar_eff s1.idents ks' sp
          have : ks2' = ks2 := by rw [hins] at hins'; injection hins' with h; exact h.symm
          subst this
          rw [hins]
          simp only [mapKidsM, kids, run_bind, run_pure, withKids]
          intro hfin
          have e01 : Eff s s1 (nsL ks') := ((Eff.of_TS t0).trans e).cast (by omega)
          have := hlist ks2' s1 (e01.stOk hs) g2 hfin
          simp only [eff_block]
          omega
      | _ => simp [isBlockNode] at hb
    · simp only [Bool.not_eq_true] at hb
      rw [blockVisit_generic cfg opFuel f n hb]
      have hg' := hg
      rw [goodW_eq] at hg'
      simp only [hb, Bool.and_false, Bool.false_eq_true, if_false] at hg'
      cases hh : hookName? n with
      | none =>
        rw [hh] at hg'
        simp only [Bool.and_eq_true, Bool.not_eq_true'] at hg'
        simp only [mapKidsM, run_bind, run_pure]
        intro hfin
        have e3 := hlist n.kids s hs hg'.2 hfin
        obtain ⟨g3, l3, _⟩ := hspec n.kids s hs hg'.2 hfin
        have hheavy : heavy (n.withKids (mapM' (blockVisit cfg opFuel f) n.kids s).1) = heavy n := by
          cases n with
          | call c as sp =>
            match hks : (mapM' (blockVisit cfg opFuel f) (Node.call c as sp).kids s).1, l3, g3 with
            | c' :: as', _, g3 =>
              simp only [goodL_cons, Bool.and_eq_true] at g3
              simp only [withKids, List.getD_cons_zero, List.drop_succ_cons, List.drop_zero, heavy]
              rw [hookName?_call_none _ _ g3.1, hh]
          | assign op l r sp =>
            simp only [kids, mapM', run_bind, run_pure, withKids, List.getD_cons_zero, List.getD_cons_succ, heavy]
            rw [isTempIdent_blockVisit]
          | _ =>
            rw [heavy_withKids_other _ _ (by intro c as sp h; cases h) (by intro op l r sp h; cases h)]
        rw [eff_eq, Node.kids_withKids n _ l3, e3, hheavy, ← eff_eq]
      | some nm =>
        obtain ⟨x, isp, psp, msp, args, sp, rfl, hx⟩ := hookName?_some hh
        rw [hh] at hg'
        simp only [kids, List.drop_succ_cons, List.drop_zero, Bool.and_eq_true] at hg'
        simp only [mapKidsM, kids, mapM', run_bind, run_pure]
        have hc := blockVisit_callee cfg opFuel f (.user x) isp nm psp msp s
        generalize blockVisit cfg opFuel f (.member (.ident (.user x) isp) (.pname nm psp) msp) s = RC at hc
        obtain ⟨c', s1⟩ := RC
        obtain ⟨hc1, t1⟩ := hc
        simp only at hc1 t1 ⊢
        subst hc1
        intro hfin
        have e1 : Eff s s1 0 := Eff.of_TS t1
        have e3 := hlist args s1 (e1.stOk hs) hg'.2 hfin
        simp only [withKids, List.getD_cons_zero, List.drop_succ_cons, List.drop_zero]
        rw [eff_call, eff_call]
        simp [hookName?, hx, e3]

end IastModel

namespace IastModel
open Node

theorem eff_insertPrologue (pro : List Node) (k : String) (sp : Span) (ns' : List String) (body vs : List Node) :
    eff (insertPrologue pro (.other k sp ("body" :: ns') (.arr body :: vs))) =
      eff (.other k sp ("body" :: ns') (.arr body :: vs)) + effL pro := by
  simp only [insertPrologue, eff_other, effL_cons, eff_arr, insertAt, effL_append]
  have : effL (body.take (variableInsertionIndex body)) + effL (body.drop (variableInsertionIndex body)) = effL body := by
    conv => rhs; rw [← List.take_append_drop (variableInsertionIndex body) body]
    rw [effL_append]
  omega

/-- **No effect node is duplicated or lost.**  For every configuration, fuel and program (hypotheses
    as in `master`), unless the rewrite is refused, the output is `p1` or `p1` with the prologue
    inserted, where `p1` contains exactly as many effect nodes — calls other than hook calls, optional
    calls, `new`, `++`/`--`, `yield`, `await`, tagged templates, function / class / object expressions,
    `delete`, template literals, assignments to anything but an injected temporary — as the source. -/
theorem effect_nodes_preserved_master (cfg : Config) (fuel : Nat) (p : Node) (h0 : ns p = 0) (ht : targetsOk p = true)
    (hnc : (transformProgram cfg fuel p).status ≠ .cancelled) :
    ∃ p1, eff p1 = eff p ∧
      (transformProgram cfg fuel p).out =
        (if (transformProgram cfg fuel p).status = .modified then insertPrologue (prologue cfg.dsts) p1 else p1) := by
  unfold transformProgram at hnc ⊢
  simp only [StateT.run] at hnc ⊢
  by_cases hr : hasReserved (tempPrefix cfg.localVarPrefix) p = true
  · exact absurd (programVisit_reserved cfg _ fuel p {} hr) hnc
  · simp only [Bool.not_eq_true] at hr
    simp only [programVisit_eq cfg _ fuel p {} hr] at hnc ⊢
    refine ⟨(mapKidsM mapM' (blockVisit cfg fuel fuel) p {}).1, ?_, rfl⟩
    simp only [mapKidsM, run_bind, run_pure] at hnc ⊢
    have hs0 : StOk ({} : St) := by intro h; cases h
    have hcfg := cfgOk_dsts cfg
    have hlist := mapBlock_E (okCfg cfg) (blockVisit cfg fuel fuel)
      (fun k s hs hg => blockVisit_E (okCfg cfg) cfg hcfg fuel fuel k s hs hg)
      (fun k s h => blockVisit_canc cfg fuel fuel k s h)
    have hspec := mapBlock_spec (okCfg cfg) (blockVisit cfg fuel fuel)
      (fun k s hs hg => blockVisit_spec (okCfg cfg) cfg hcfg fuel fuel k s hs hg)
      (fun k s h => blockVisit_canc cfg fuel fuel k s h)
    have hb0 : bad p = 0 := (bad_zero_iff p).mpr ht
    have hk : goodL (okCfg cfg) true p.kids = true := by
      apply goodL_of_ns0
      · exact nsL_kids_of_ns0 h0
      · rw [bad_eq] at hb0; omega
    have e3 := hlist p.kids {} hs0 hk hnc
    obtain ⟨g3, l3, _⟩ := hspec p.kids {} hs0 hk hnc
    have hheavy : heavy (p.withKids (mapM' (blockVisit cfg fuel fuel) p.kids {}).1) = heavy p := by
      cases p with
      | call c as sp =>
        simp only [ns_call] at h0
        match hks : (mapM' (blockVisit cfg fuel fuel) (Node.call c as sp).kids {}).1, l3, g3 with
        | c' :: as', _, g3 =>
          simp only [goodL_cons, Bool.and_eq_true] at g3
          simp only [withKids, List.getD_cons_zero, List.drop_succ_cons, List.drop_zero, heavy]
          rw [hookName?_call_none _ _ g3.1, hookName?_none_of_ns0 _ _ _ (by omega)]
      | assign op l r sp =>
        simp only [kids, mapM', run_bind, run_pure, withKids, List.getD_cons_zero, List.getD_cons_succ, heavy]
        rw [isTempIdent_blockVisit]
      | _ =>
        rw [heavy_withKids_other _ _ (by intro c as sp h; cases h) (by intro op l r sp h; cases h)]
    rw [eff_eq, Node.kids_withKids p _ l3, e3, hheavy, ← eff_eq]

end IastModel

import IastModel.Lemmas.Tree
/-
  Shapes of compound-assignment targets, and the count of compound assignments whose target has
  none of them (the hypothesis `targetsOk` of the instrumentation theorems, as a number that adds up
  over sub-trees).
-/
namespace IastModel
open Node

def isAtomNode : Node → Bool
  | .atom _ => true
  | _ => false

/-- member property shapes the parser produces: a plain name, a computed key, or a node without
    sub-expressions (a private name) -/
def propShape : Node → Bool
  | .pname .. => true
  | .other "Computed" _ ["expression"] [_] => true
  | .other k _ _ vs => k == "PrivateName" && vs.all isAtomNode
  | _ => false

/-- the shapes of a compound-assignment target in JavaScript: identifier, member access, `super`
    property, or one of these in parentheses -/
def tshape : Node → Bool
  | .ident .. => true
  | .member _ p _ => propShape p
  | .other "SuperPropExpression" _ ["obj", "property"] [.other "Super" _ _ [], p] => propShape p
  | .paren e _ => tshape e
  | _ => false

def assignTargetOk : Node → Bool
  | .assign op l _ _ => op != "+=" || tshape l
  | _ => true

/-- every compound-assignment target of the tree has one of the JavaScript target shapes -/
def targetsOk (n : Node) : Bool := Node.all assignTargetOk n

theorem targetsOk_kids {n : Node} (h : targetsOk n = true) : ∀ k ∈ n.kids, targetsOk k = true := by
  unfold targetsOk at h
  rw [Node.all_eq] at h
  simp only [Bool.and_eq_true, List.all_eq_true] at h
  exact h.2

theorem targetsOk_self {n : Node} (h : targetsOk n = true) : assignTargetOk n = true := by
  unfold targetsOk at h
  rw [Node.all_eq] at h
  simp only [Bool.and_eq_true] at h
  exact h.1

/-- number of compound assignments in the tree whose target does not have a JavaScript target shape -/
def bad (n : Node) : Nat := Node.count (fun k => !assignTargetOk k) n
def badL (l : List Node) : Nat := (l.map bad).sum

theorem bad_eq (n : Node) : bad n = (if assignTargetOk n then 0 else 1) + badL n.kids := by
  unfold badL
  show Node.count _ n = _
  rw [Node.count_eq]
  cases assignTargetOk n <;> rfl

@[simp] theorem badL_nil : badL [] = 0 := rfl
@[simp] theorem badL_cons (x : Node) (xs : List Node) : badL (x :: xs) = bad x + badL xs := by simp [badL]
@[simp] theorem badL_append (xs ys : List Node) : badL (xs ++ ys) = badL xs + badL ys := by
  simp [badL, List.sum_append]

theorem badL_eq_zero : ∀ (l : List Node), badL l = 0 → ∀ k ∈ l, bad k = 0 := by
  intro l
  induction l with
  | nil => intro _ k hk; cases hk
  | cons x xs ih =>
    intro h k hk
    simp only [badL_cons] at h
    rcases List.mem_cons.mp hk with rfl | hk
    · omega
    · exact ih (by omega) k hk

theorem badL_zero_of : ∀ (l : List Node), (∀ k ∈ l, bad k = 0) → badL l = 0 := by
  intro l
  induction l with
  | nil => intro _; rfl
  | cons x xs ih =>
    intro h
    simp only [badL_cons]
    rw [h x (by simp), ih (fun k hk => h k (by simp [hk]))]

theorem bad_zero_iff : ∀ n : Node, bad n = 0 ↔ targetsOk n = true := by
  apply Node.ind
  intro n ih
  rw [bad_eq]
  unfold targetsOk
  rw [Node.all_eq]
  simp only [Bool.and_eq_true, List.all_eq_true]
  constructor
  · intro h
    have h1 : assignTargetOk n = true := by cases hh : assignTargetOk n <;> simp_all
    refine ⟨h1, ?_⟩
    intro k hk
    have : badL n.kids = 0 := by omega
    exact (ih k hk).mp (badL_eq_zero _ this k hk)
  · intro ⟨h1, h2⟩
    simp only [h1, if_true, Nat.zero_add]
    exact badL_zero_of _ (fun k hk => (ih k hk).mpr (h2 k hk))

@[simp] theorem bad_lit (k v r : String) (sp : Span) : bad (.lit k v r sp) = 0 := by rw [bad_eq]; simp [assignTargetOk, kids]
@[simp] theorem bad_pname (n : String) (sp : Span) : bad (.pname n sp) = 0 := by rw [bad_eq]; simp [assignTargetOk, kids]
@[simp] theorem bad_ident (n : Name) (sp : Span) : bad (.ident n sp) = 0 := by rw [bad_eq]; simp [assignTargetOk, kids]
@[simp] theorem bad_bin (op : String) (l r : Node) (sp : Span) : bad (.bin op l r sp) = bad l + bad r := by rw [bad_eq]; simp [assignTargetOk, kids]
theorem bad_assign_eq (l r : Node) (sp : Span) : bad (.assign "=" l r sp) = bad l + bad r := by
  rw [bad_eq]; simp [assignTargetOk, kids]
@[simp] theorem bad_member (o p : Node) (sp : Span) : bad (.member o p sp) = bad o + bad p := by rw [bad_eq]; simp [assignTargetOk, kids]
@[simp] theorem bad_call (c : Node) (as : List Node) (sp : Span) : bad (.call c as sp) = bad c + badL as := by rw [bad_eq]; simp [assignTargetOk, kids]
@[simp] theorem bad_arg (s : Option Span) (e : Node) : bad (.arg s e) = bad e := by rw [bad_eq]; simp [assignTargetOk, kids]
@[simp] theorem bad_paren (e : Node) (sp : Span) : bad (.paren e sp) = bad e := by rw [bad_eq]; simp [assignTargetOk, kids]
@[simp] theorem bad_seq (es : List Node) (sp : Span) : bad (.seq es sp) = badL es := by rw [bad_eq]; simp [assignTargetOk, kids]
@[simp] theorem bad_array (es : List Node) (sp : Span) : bad (.array es sp) = badL es := by rw [bad_eq]; simp [assignTargetOk, kids]
@[simp] theorem bad_cond (t c a : Node) (sp : Span) : bad (.cond t c a sp) = bad t + bad c + bad a := by rw [bad_eq]; simp [assignTargetOk, kids]; omega
@[simp] theorem bad_optChain (o : Bool) (b : Node) (sp : Span) : bad (.optChain o b sp) = bad b := by rw [bad_eq]; simp [assignTargetOk, kids]
@[simp] theorem bad_optCall (c : Node) (as : List Node) (sp : Span) : bad (.optCall c as sp) = bad c + badL as := by rw [bad_eq]; simp [assignTargetOk, kids]

@[simp] theorem bad_atom (a : String) : bad (.atom a) = 0 := by rw [bad_eq]; simp [assignTargetOk, kids]
@[simp] theorem bad_unary (op : String) (a : Node) (sp : Span) : bad (.unary op a sp) = bad a := by rw [bad_eq]; simp [assignTargetOk, kids]
@[simp] theorem bad_tpl (es qs : List Node) (sp : Span) : bad (.tpl es qs sp) = badL es + badL qs := by rw [bad_eq]; simp [assignTargetOk, kids]
@[simp] theorem bad_other (k : String) (sp : Span) (ns' : List String) (vs : List Node) : bad (.other k sp ns' vs) = badL vs := by rw [bad_eq]; simp [assignTargetOk, kids]
@[simp] theorem bad_block (ss : List Node) (sp : Span) : bad (.block ss sp) = badL ss := by rw [bad_eq]; simp [assignTargetOk, kids]
@[simp] theorem bad_arrow (ps : List Node) (b : Node) (a : String) (sp : Span) : bad (.arrow ps b a sp) = badL ps + bad b := by rw [bad_eq]; simp [assignTargetOk, kids]

end IastModel

import IastModel.Lemmas.ErVisitBase
namespace IastModel
open Node

theorem structK_withKids (n : Node) (ks : List Node) : structK (n.withKids ks) = structK n := by
  cases n <;> rfl

theorem Forall2_Sim_length {Xs ks : List Node} (h : Forall2 ESim Xs ks) : Xs.length = ks.length := Forall2.length_eq h

theorem notArg_withKids (n : Node) (Xs : List Node) (h : structK n = true) : ∀ s e, n.withKids Xs ≠ .arg s e := by
  intro s e
  cases n <;> simp only [structK, Bool.false_eq_true] at h <;> simp [withKids]

/-- a node the visitor only descends into: its result erases to the node itself -/
theorem gen_VC (n : Node) (ks' : List Node) (lo hi : Nat) (hs : srcOk n = true) (hk : structK n = true)
    (hkl : KL lo hi ks' n.kids) : EVC lo hi (n.withKids ks') n := by
  have hl := hkl.length
  refine ⟨?_, Or.inl (span_withKids n ks' hk), ?_, ?_, ?_⟩
  · intro m hb σ
    have hnb : isBlockNode (n.withKids ks') = false := by
      cases n <;> simp only [structK, Bool.false_eq_true] at hk <;> rfl
    obtain ⟨ks'', rfl, hks⟩ := hb.inv hnb
    rw [Node.kids_withKids n ks' hl] at hks
    have hl2 : ks''.length = n.kids.length := by rw [hks.length, hl]
    rw [Node.withKids_withKids n ks' ks'' hl hl2]
    obtain ⟨Xs, Δ, eX, sX, wX⟩ := eraseL_KL hkl ks'' hks σ
    have hlX := Forall2_Sim_length sX
    refine ⟨n.withKids Xs, Δ, ?_, ?_, wX⟩
    · rw [erase_struct _ (by rw [structK_withKids]; exact hk), Node.kids_withKids n ks'' hl2, eX]
      simp only
      rw [Node.withKids_withKids n ks'' Xs hl2 hlX]
    · refine ⟨strip_withKids n Xs hk hlX (Forall2_Sim_strip sX), Or.inl (span_withKids n Xs hk), ?_⟩
      exact noSp_of_unSpread (unSpread_withKids n Xs hk (srcOk_self hs)) (notArg_withKids n Xs hk)
  · cases n <;> simp only [structK, Bool.false_eq_true] at hk <;> simp only [withKids, Deep]
    case other k sp ns vs => exact ⟨trivial, trivial, trivial, hkl.deepL⟩
    case array es sp => exact ⟨trivial, hkl.deepL⟩
    case member o p sp =>
      match ks', hl, hkl with
      | [o', p'], _, hkl =>
        simp only [KL, kids, Forall2] at hkl
        simp only [List.getD_cons_zero, List.getD_cons_succ]
        exact ⟨trivial, hkl.1.1, hkl.2.1.1, hkl.1.2.2.1, hkl.2.1.2.2.1, hkl.1.2.2.2.2⟩
  · cases n <;> simp only [structK, Bool.false_eq_true] at hk <;> rfl
  · cases n <;> simp only [structK, Bool.false_eq_true] at hk <;> simp [withKids, Node.isIdent]

theorem arg_VC {lo hi : Nat} {s : Option Span} {e' e : Node} (h : EVC lo hi e' e) : EVC lo hi (.arg s e') (.arg s e) := by
  refine ⟨?_, ?_, ?_, rfl, by simp [Node.isIdent]⟩
  · intro m hb σ
    obtain ⟨e'', rfl, he⟩ := hb.arg_inv
    obtain ⟨X, Δ, eX, sX, wX⟩ := h.1 e'' he σ
    refine ⟨.arg s X, Δ, by simp only [erase, eX], ?_, wX⟩
    refine ⟨by simp only [strip, sX.1], ?_, by simpa [noSp] using sX.2.2⟩
    have := sX.2.1
    simpa [spanRel, Node.span, isOptN] using this
  · have := h.2.1
    simpa [spanRel, Node.span, isOptN] using this
  · simp only [Deep]
    exact ⟨trivial, h.1, h.2.2.1⟩

theorem loose_of_spanRel {e' e : Node} {sp : Span} (h : spanRel e' e) (hs : srcNode (.paren e sp) = true) :
    (e'.span == sp) = false := by
  simp only [srcNode, Bool.and_eq_true, Bool.not_eq_true'] at hs
  have hne : (e.span == sp) = false := by have := hs.2; simpa [bne] using this
  rcases h with h | h
  · rw [h]; exact hne
  · rw [h.2]
    cases hb : (Span.dummy == sp) with
    | false => rfl
    | true =>
      have := span_eq_of_beq hb
      rw [← this] at hs
      simp [dummy_isDummy] at hs

theorem paren_VC {lo hi : Nat} {e' e : Node} {sp : Span} (hs : srcOk (.paren e sp) = true) (h : EVC lo hi e' e) :
    EVC lo hi (.paren e' sp) (.paren e sp) := by
  have hloose := loose_of_spanRel h.2.1 (srcOk_self hs)
  refine ⟨?_, Or.inl rfl, ?_, rfl, by simp [Node.isIdent]⟩
  · intro m hb σ
    obtain ⟨e'', rfl, he⟩ := hb.paren_inv
    obtain ⟨X, Δ, eX, sX, wX⟩ := h.1 e'' he σ
    refine ⟨.paren X sp, Δ, by rw [erase_paren_loose _ _ _ (by rw [BRg.span _ _ he]; exact hloose), eX], ?_, wX⟩
    exact ⟨by simp only [strip, sX.1], Or.inl rfl, by simp [noSp, unSpread]⟩
  · simp only [Deep]
    intro _
    exact ⟨e, rfl, hloose, h.1, h.2.2.1⟩

theorem seq_VC {lo hi : Nat} {es' es : List Node} {sp : Span} (h : KL lo hi es' es) : EVC lo hi (.seq es' sp) (.seq es sp) := by
  have hhead : headIsTempAssign es' = false := by
    cases es' with
    | nil => rfl
    | cons x xs =>
      cases es with
      | nil => simp [KL, Forall2] at h
      | cons y ys => simp only [KL, Forall2] at h; exact h.1.2.2.2.1
  refine ⟨?_, Or.inl rfl, by simp [Deep], rfl, by simp [Node.isIdent]⟩
  intro m hb σ
  obtain ⟨es'', rfl, hes⟩ := hb.seq_inv
  have hhead2 : headIsTempAssign es'' = false := by
    cases es' with
    | nil => rw [BRgL.nil_inv hes]; rfl
    | cons x xs =>
      obtain ⟨x'', xs'', rfl, hx, _⟩ := BRgL.cons_inv hes
      simp only [headIsTempAssign] at hhead ⊢
      rw [hx.isTempAssign]; exact hhead
  obtain ⟨Xs, Δ, eX, sX, wX⟩ := eraseL_KL h es'' hes σ
  refine ⟨.seq Xs sp, Δ, by simp only [erase, hhead2, Bool.false_eq_true, if_false, eX], ?_, wX⟩
  exact ⟨by simp only [strip, Forall2_Sim_strip sX], Or.inl rfl, by simp [noSp, unSpread]⟩

theorem cond_VC {lo hi : Nat} {t' c' a' t c a : Node} {sp : Span} (hs : srcOk (.cond t c a sp) = true)
    (h : KL lo hi [t', c', a'] [t, c, a]) : EVC lo hi (.cond t' c' a' sp) (.cond t c a sp) := by
  have hsp : sp.isDummy = false := by
    have := srcOk_self hs; simpa [srcNode] using this
  refine ⟨?_, Or.inl rfl, by simp [Deep], rfl, by simp [Node.isIdent]⟩
  intro m hb σ
  obtain ⟨t'', c'', a'', rfl, ht, hc, ha⟩ := hb.cond_inv
  obtain ⟨Xs, Δ, eX, sX, wX⟩ := eraseL_KL h [t'', c'', a''] (BRgL.cons ht (BRgL.cons hc (BRgL.cons ha BRgL.nil))) σ
  simp only [eraseL] at eX
  have hX := congrArg Prod.fst eX
  have hE := congrArg Prod.snd eX
  simp only at hX hE
  refine ⟨.cond (erase σ t'').1 (erase (erase σ t'').2 c'').1 (erase (erase (erase σ t'').2 c'').2 a'').1 sp, Δ, ?_, ?_, wX⟩
  · simp only [erase, isLoweredGuard_src _ _ _ _ hsp]
    rw [hE]
  · have hst := Forall2_Sim_strip sX
    rw [← hX] at hst
    simp only [stripL, List.cons.injEq, and_true] at hst
    exact ⟨by simp only [strip, hst.1, hst.2.1, hst.2.2], Or.inl rfl, by simp [noSp, unSpread]⟩

theorem tempTarget_of_VC {lo hi : Nat} {l' l : Node} (h : EVC lo hi l' l) (hs : srcOk l = true) : tempTarget? l' = none := by
  cases l' with
  | ident nm isp =>
    have := h.2.2.2.2 rfl
    rw [← this] at hs
    exact not_temp_of_src hs
  | _ => rfl

theorem assign_VC {lo hi : Nat} {op : String} {l' r' l r : Node} {sp : Span} (hs : srcOk (.assign op l r sp) = true)
    (hl : EVC lo hi l' l) (hr : EVC lo hi r' r) : EVC lo hi (.assign op l' r' sp) (.assign op l r sp) := by
  have hnt := tempTarget_of_VC hl (srcOk_kids hs l (by simp [kids]))
  have h0 := srcOk_self hs
  simp only [srcNode, Bool.and_eq_true, Bool.not_eq_true'] at h0
  refine ⟨?_, Or.inl rfl, by simp [Deep], ?_, by simp [Node.isIdent]⟩
  · intro m hb σ
    obtain ⟨l'', r'', rfl, hl'', hr''⟩ := hb.assign_inv
    obtain ⟨L, Δ1, e1, s1, w1⟩ := hl.1 l'' hl'' σ
    obtain ⟨R, Δ2, e2, s2, w2⟩ := hr.1 r'' hr'' (Δ1 ++ σ)
    refine ⟨.assign op L R sp, Δ2 ++ Δ1, ?_, ?_, w2.append w1⟩
    · rw [erase_assign_nt _ _ _ _ _ (by rw [hl''.tempTarget]; exact hnt), e1]
      simp only
      rw [e2]
      simp only [List.append_assoc, Prod.mk.injEq, and_true]
      -- the re-sugaring of `erase` does not fire on a source assignment
      unfold resugarAssign
      split
      · rename_i hop
        split
        · rename_i A B bsp
          have hst := s2.1
          have hsr := s2.2.1
          cases r with
          | bin op2 a b bsp2 =>
            simp only [strip, bin.injEq] at hst
            simp only [spanRel, Node.span, isOptN] at hsr
            rcases hsr with hsr | hsr
            · subst hsr
              have h2 := h0.2
              simp only [looksLowered, hop, hst.1.symm, Bool.true_and] at h2
              simp [h2]
            · exact absurd hsr.1 (by simp)
          | _ => simp [strip] at hst
        · rfl
      · rfl
    · exact ⟨by simp only [strip, s1.1, s2.1], Or.inl rfl, noSp_assign _ _ _ _⟩
  · unfold isTempAssign
    split
    · rename_i k isp rr spp heq
      simp only [assign.injEq] at heq
      obtain ⟨_, rfl, _, _⟩ := heq
      simp [tempTarget?] at hnt
    · rfl

theorem calleeKind_of_VC {lo hi : Nat} {c' c : Node} (h : EVC lo hi c' c) (hs : srcOk c = true) : calleeKind c' = .plain := by
  cases c' with
  | member o' p' msp =>
    cases o' with
    | ident nm isp =>
      obtain ⟨o, p, sp2, rfl⟩ := Er_strip_member (h.1.er ⟨fun _ => False, []⟩)
      have hD := h.2.2.1
      simp only [Deep] at hD
      have := hD.2.2.2.2.2 rfl
      rw [← this] at hs
      exact calleeKind_src hs |> fun hh => by
        have hk : calleeKind (.member (.ident nm isp) p sp2) = .plain := hh
        cases nm with
        | temp k =>
          have := srcOk_self (srcOk_kids hs (.ident (.temp k) isp) (by simp [kids]))
          simp [srcNode] at this
        | user x =>
          have hx := srcOk_self (srcOk_kids hs (.ident (.user x) isp) (by simp [kids]))
          simp only [srcNode, bne_iff_ne, ne_eq] at hx
          cases p' <;> simp [calleeKind, hx]
    | _ => cases p' <;> rfl
  | _ => rfl

/-- a replacement of nested blocks cannot turn a callee into a hook or a call through a temporary -/
theorem calleeKind_BRg {c c'' : Node} (h : BRg c c'') : calleeKind c'' = calleeKind c := by
  cases c with
  | member o p msp =>
    obtain ⟨o'', p'', rfl, ho, hp⟩ := h.member_inv
    cases o with
    | ident nm isp =>
      rw [BRg_noBlk (noBlk_identE _ _) ho]
      cases p with
      | pname q qsp => rw [BRg_noBlk (noBlk_pnameE _ _) hp]
      | block ss bsp => rcases hp.block_inv with rfl | ⟨ss', rfl, _⟩ <;> cases nm <;> rfl
      | _ =>
        obtain ⟨ks', rfl, _⟩ := hp.inv rfl
        cases nm <;> rfl
    | block ss bsp => rcases ho.block_inv with rfl | ⟨ss', rfl, _⟩ <;> rfl
    | _ =>
      obtain ⟨ks', rfl, _⟩ := ho.inv rfl
      rfl
  | block ss sp => rcases h.block_inv with rfl | ⟨ss', rfl, _⟩ <;> rfl
  | _ =>
    obtain ⟨ks', rfl, _⟩ := h.inv rfl
    rfl

theorem call_VC {lo hi : Nat} {c' c : Node} {as' as : List Node} {sp : Span} (hs : srcOk (.call c as sp) = true)
    (hc : EVC lo hi c' c) (ha : KL lo hi as' as) : EVC lo hi (.call c' as' sp) (.call c as sp) := by
  have hck := calleeKind_of_VC hc (srcOk_kids hs c (by simp [kids]))
  refine ⟨?_, Or.inl rfl, by simp [Deep], rfl, by simp [Node.isIdent]⟩
  intro m hb σ
  obtain ⟨c'', as'', rfl, hcc, has⟩ := hb.call_inv
  obtain ⟨C, Δ1, e1, s1, w1⟩ := hc.1 c'' hcc σ
  obtain ⟨Xs, Δ2, e2, s2, w2⟩ := eraseL_KL ha as'' has (Δ1 ++ σ)
  refine ⟨.call C Xs sp, Δ2 ++ Δ1, ?_, ?_, w2.append w1⟩
  · rw [erase_call_plain _ _ _ _ (by rw [calleeKind_BRg hcc]; exact hck), e1]
    simp only
    rw [e2, List.append_assoc]
  · exact ⟨by simp only [strip, s1.1, Forall2_Sim_strip s2], Or.inl rfl, noSp_call _ _ _⟩

/-- nodes the visitor only descends into, keeping the constructor -/
def genK : Node → Bool
  | .arg .. | .paren .. | .seq .. | .cond .. => true
  | n => structK n

theorem genAll_VC (n : Node) (hs : srcOk n = true) (hg : genK n = true) (lo hi : Nat) (ks' : List Node)
    (hkl : KL lo hi ks' n.kids) : EVC lo hi (n.withKids ks') n := by
  have hl := hkl.length
  cases n with
  | arg sA e =>
    match ks', hl, hkl with
    | [e'], _, hkl => simp only [KL, kids, Forall2] at hkl; exact arg_VC hkl.1
  | paren e sp =>
    match ks', hl, hkl with
    | [e'], _, hkl => simp only [KL, kids, Forall2] at hkl; exact paren_VC hs hkl.1
  | seq es sp => exact seq_VC hkl
  | cond t c a sp =>
    match ks', hl, hkl with
    | [t', c', a'], _, hkl => exact cond_VC hs hkl
  | _ => exact gen_VC _ ks' lo hi hs hg hkl

end IastModel

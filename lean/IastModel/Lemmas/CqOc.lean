import IastModel.Lemmas.CqTr
namespace IastModel
open Node

def OcPostQ (q : Node → Bool) (n : Node) (oc : OcSt) (R : (Node × OcSt) × St) : Prop :=
  cq q R.1.1 + cqL q R.1.2.assignments = cq q n + cqL q oc.assignments ∧ OcInv R.1.2

theorem getCallFromBaseCall_Q (q : Node → Bool) (callee : Node) (args : List Node) (optional : Bool) (oc : OcSt) (s : St)
    (hns : ns callee = 0) (hi : OcInv oc) :
    let R := getCallFromBaseCall callee args optional oc s
    OcInv R.1.2 ∧
    (R.1.1 = none → cqL q R.1.2.assignments = cqL q oc.assignments) ∧
    (∀ r, R.1.1 = some r → cq q r + cqL q R.1.2.assignments = (cq q callee + cqL q args) + cqL q oc.assignments) := by
  unfold getCallFromBaseCall
  by_cases ho : optional = true
  · simp only [ho, if_true]
    cases callee with
    | member mobj mprop msp =>
      simp only [oc_bind, oc_get, oc_set, oc_lift, oc_pure, oc_modify]
      rcases getIdentUsed_cases mobj oc.assignments [] Span.dummy .expr s with ⟨hl, h1⟩ | ⟨_, t0, s1, h1, _⟩
      · rw [h1]; simp only [oc_pure]
        exact ⟨hi, (by intro _; trivial), (by intro r hr; cases hr)⟩
      · rw [h1]
        simp only [oc_bind, oc_get, oc_set, oc_lift, oc_pure, oc_modify]
        rcases getIdentUsed_cases (Node.member (tempIdent t0) mprop Span.dummy)
            (oc.assignments ++ [.assign "=" (tempIdent t0) (assignRight mobj .expr) Span.dummy]) [] Span.dummy .expr s1
          with ⟨hl, _⟩ | ⟨_, t1, s2, h2, _⟩
        · simp [Node.isLit] at hl
        · rw [h2]
          simp only [oc_bind, oc_modify, oc_pure]
          refine ⟨Or.inr rfl, (by intro h; cases h), ?_⟩
          intro r hr
          simp only [Option.some.injEq] at hr
          subst hr
          rw [cq_call_user q _ _ _ (by simp [hookName?, tempIdent])]
          simp [tempIdent, assignRight]
          omega
    | _ =>
      simp only [oc_bind, oc_get, oc_set, oc_lift, oc_pure, oc_modify]
      rcases getIdentUsed_cases _ oc.assignments [] Span.dummy .expr s with ⟨hl, h1⟩ | ⟨_, t0, s1, h1, _⟩
      · rw [h1]; simp only [oc_pure]
        exact ⟨hi, (by intro _; trivial), (by intro r hr; cases hr)⟩
      · rw [h1]
        simp only [isEmpty_snoc, Bool.false_eq_true, if_false, oc_bind, oc_modify, oc_pure]
        refine ⟨Or.inr rfl, (by intro h; cases h), ?_⟩
        intro r hr
        simp only [Option.some.injEq] at hr
        subst hr
        rw [cq_call_user q _ _ _ (by simp [hookName?, tempIdent])]
        first | (simp [tempIdent, assignRight]; done) | (simp [tempIdent, assignRight]; omega)
  · simp only [ho, Bool.false_eq_true, if_false, oc_pure]
    refine ⟨hi, (by intro h; cases h), ?_⟩
    intro r hr
    simp only [Option.some.injEq] at hr
    subst hr
    rw [cq_call_user q _ _ _ (hookName?_none_of_ns0 _ _ _ hns)]

theorem getMemberFromBaseMember_Q (q : Node → Bool) (obj prop : Node) (msp : Span) (optional : Bool) (oc : OcSt) (s : St) (hi : OcInv oc) :
    let R := getMemberFromBaseMember obj prop msp optional oc s
    OcInv R.1.2 ∧
    (R.1.1 = none → cqL q R.1.2.assignments = cqL q oc.assignments) ∧
    (∀ r, R.1.1 = some r → cq q r + cqL q R.1.2.assignments = cq q obj + cq q prop + cqL q oc.assignments) := by
  unfold getMemberFromBaseMember
  by_cases ho : optional = true
  · simp only [ho, if_true, oc_bind, oc_get, oc_set, oc_lift, oc_pure]
    rcases getIdentUsed_cases obj oc.assignments [] Span.dummy .expr s with ⟨hl, h1⟩ | ⟨_, t, s1, h1, _⟩
    · rw [h1]; simp only [oc_pure]
      exact ⟨hi, (by intro _; trivial), (by intro r hr; cases hr)⟩
    · rw [h1]
      simp only [oc_bind, oc_modify, oc_pure]
      refine ⟨Or.inr rfl, (by intro h; cases h), ?_⟩
      intro r hr
      simp only [Option.some.injEq] at hr
      subst hr
      simp [tempIdent, assignRight]
      omega
  · simp only [ho, Bool.false_eq_true, if_false, oc_pure]
    refine ⟨hi, (by intro h; cases h), ?_⟩
    intro r hr
    simp only [Option.some.injEq] at hr
    subst hr
    simp

end IastModel

namespace IastModel
open Node

theorem ocSpine_Q (q : Node → Bool) (v : Node → OcM Node)
    (hv : ∀ e oc s, ns e = 0 → OcZ oc → OcInv oc → OcPostQ q e oc (v e oc s) ∧ OcPost (v e oc s) s)
    (e : Node) (oc : OcSt) (s : St) (h0 : ns e = 0) (hz : OcZ oc) (hi : OcInv oc) :
    OcPostQ q e oc (ocSpine v e oc s) := by
  unfold ocSpine
  split
  · rename_i o callee args csp sp
    simp only [ns_optChain, ns_optCall] at h0
    simp only [oc_bind, oc_pure]
    have h := (hv callee oc s (by omega) hz hi).1
    generalize v callee oc s = R at h
    obtain ⟨⟨c', oc'⟩, s'⟩ := R
    obtain ⟨h1, h2⟩ := h
    simp only at h1 h2
    exact ⟨by simp only [cq_optChain, cq_optCall]; omega, h2⟩
  · rename_i o obj prop msp sp
    simp only [ns_optChain, ns_member] at h0
    simp only [oc_bind, oc_pure]
    have h := (hv obj oc s (by omega) hz hi).1
    generalize v obj oc s = R at h
    obtain ⟨⟨c', oc'⟩, s'⟩ := R
    obtain ⟨h1, h2⟩ := h
    simp only at h1 h2
    exact ⟨by simp only [cq_optChain, cq_member]; omega, h2⟩
  · rename_i callee args sp
    simp only [ns_call] at h0
    split
    · simp only [oc_pure]; exact ⟨rfl, hi⟩
    · simp only [oc_bind, oc_pure]
      have hb := hv callee oc s (by omega) hz hi
      generalize v callee oc s = R at hb
      obtain ⟨⟨c', oc'⟩, s'⟩ := R
      obtain ⟨⟨h1, h2⟩, hz'⟩ := hb
      simp only at h1 h2
      have hc0 : ns c' = 0 := hz'.1
      refine ⟨?_, h2⟩
      rw [cq_call_user q _ _ _ (hookName?_none_of_ns0 _ _ _ hc0), cq_call_user q _ _ _ (hookName?_none_of_ns0 _ _ _ (by omega))]
      simp only
      omega
  · rename_i obj prop sp
    simp only [ns_member] at h0
    simp only [oc_bind, oc_pure]
    have h := (hv obj oc s (by omega) hz hi).1
    generalize v obj oc s = R at h
    obtain ⟨⟨c', oc'⟩, s'⟩ := R
    obtain ⟨h1, h2⟩ := h
    simp only at h1 h2
    exact ⟨by simp only [cq_member]; omega, h2⟩
  · simp only [oc_pure]; exact ⟨rfl, hi⟩

theorem ocVisit_Q (q : Node → Bool) (cfg : Config) : ∀ (f : Nat) (n : Node) (oc : OcSt) (s : St),
    ns n = 0 → OcZ oc → OcInv oc → OcPostQ q n oc (ocVisit cfg f n oc s) := by
  intro f
  induction f with
  | zero =>
    intro n oc s h hz hi
    simp only [ocVisit, oc_bind, oc_lift, oc_pure]
    exact ⟨rfl, hi⟩
  | succ f ih =>
    intro n oc s h hz hi
    have hv : ∀ e oc s, ns e = 0 → OcZ oc → OcInv oc → OcPostQ q e oc (ocVisit cfg f e oc s) ∧ OcPost (ocVisit cfg f e oc s) s :=
      fun e oc s h0 hz hi => ⟨ih e oc s h0 hz hi, ocVisit_z cfg f e oc s h0 hz⟩
    unfold ocVisit
    split
    · rename_i optional base sp
      rw [oc_bind, oc_get]
      show OcPostQ q _ oc ((ite (oc.found = true) _ _ : OcM Node) oc s)
      by_cases hf : oc.found = true
      · rw [if_pos hf]
        have key : ∀ (m : OcM (Option Node)),
            (OcInv (m oc s).1.2 ∧ OcZ (m oc s).1.2 ∧
              ((m oc s).1.1 = none → cqL q (m oc s).1.2.assignments = cqL q oc.assignments) ∧
              (∀ r, (m oc s).1.1 = some r → ns r = 0 ∧
                cq q r + cqL q (m oc s).1.2.assignments = cq q (Node.optChain optional base sp) + cqL q oc.assignments)) →
            OcPostQ q (Node.optChain optional base sp) oc ((do
              let r ← m
              if optional = true then pure (r.getD (optChain optional base sp))
              else ocSpine (ocVisit cfg f) (r.getD (optChain optional base sp)) : OcM Node) oc s) := by
          intro m hm
          simp only [oc_bind]
          generalize hR : m oc s = R at hm
          obtain ⟨⟨r, oc1⟩, s1⟩ := R
          simp only at hm
          obtain ⟨i1, z1, hnone, hsome⟩ := hm
          have hr1 : ns (r.getD (Node.optChain optional base sp)) = 0 ∧
              cq q (r.getD (Node.optChain optional base sp)) + cqL q oc1.assignments = cq q (Node.optChain optional base sp) + cqL q oc.assignments := by
            cases r with
            | none => exact ⟨h, by simp [hnone rfl]⟩
            | some x => exact hsome x rfl
          by_cases ho : optional = true
          · rw [if_pos ho, oc_pure]; exact ⟨hr1.2, i1⟩
          · rw [if_neg ho]
            have := ocSpine_Q q (ocVisit cfg f) hv _ oc1 s1 hr1.1 z1 i1
            obtain ⟨t1, t2⟩ := this
            refine ⟨?_, t2⟩
            simp only at t1 ⊢
            omega
        cases base with
        | optCall callee args csp =>
          simp only [ns_optChain, ns_optCall] at h
          have hE := getCallFromBaseCall_Q q callee args optional oc s (by omega) hi
          have hZ := getCallFromBaseCall_z callee args optional oc s (by omega) (by omega) hz
          exact key _ ⟨hE.1, hZ.1, hE.2.1, fun r hr => ⟨hZ.2.1 r hr, by have := hE.2.2 r hr; simp only [cq_optChain, cq_optCall]; omega⟩⟩
        | member obj prop msp =>
          simp only [ns_optChain, ns_member] at h
          have hE := getMemberFromBaseMember_Q q obj prop msp optional oc s hi
          have hZ := getMemberFromBaseMember_z obj prop msp optional oc s (by omega) (by omega) hz
          exact key _ ⟨hE.1, hZ.1, hE.2.1, fun r hr => ⟨hZ.2.1 r hr, by have := hE.2.2 r hr; simp only [cq_optChain, cq_member]; omega⟩⟩
        | _ => exact key (pure none) ⟨hi, hz, (by intro _; rfl), (by intro r hr; simp [oc_pure] at hr)⟩
      · rw [if_neg hf]
        by_cases ht : ocTrigger cfg optional base = true
        · rw [if_pos ht]; simp only [oc_bind, oc_modify]
          exact ih _ _ _ h hz hi
        · rw [if_neg ht]
          exact ocSpine_Q q (ocVisit cfg f) hv _ oc s h hz hi
    · rw [oc_pure]; exact ⟨rfl, hi⟩

/-- the lowering of an optional chain keeps every effect node exactly once -/
theorem toDdCond_Q (q : Node → Bool) (cfg : Config) (fuel : Nat) (e : Node) (s : St) (h : ns e = 0) :
    cq q ((toDdCond cfg fuel e s).1.2.getD (toDdCond cfg fuel e s).1.1) = cq q e := by
  unfold toDdCond
  simp only [run_bind]
  have hv : OcPostQ q e {} (StateT.run (ocVisit cfg fuel e) {} s) := ocVisit_Q q cfg fuel e {} s h rfl (Or.inl rfl)
  generalize (StateT.run (ocVisit cfg fuel e) {} s) = X at hv ⊢
  obtain ⟨⟨e', oc⟩, s'⟩ := X
  obtain ⟨h1, h2⟩ := hv
  simp only [cqL_nil, Nat.add_zero] at h1
  cases hn : oc.newIdent with
  | none =>
    simp only [run_pure, Option.getD_none]
    rcases h2 with h2 | h2
    · rw [h2] at h1; simpa using h1
    · rw [hn] at h2; cases h2
  | some t =>
    simp only
    by_cases ha : oc.assignments.isEmpty = true
    · simp only [ha, if_true, run_pure, Option.getD_none]
      have : oc.assignments = [] := by simpa using ha
      rw [this] at h1; simpa using h1
    · simp only [ha, Bool.false_eq_true, if_false, run_pure, Option.getD_some]
      simp [tempIdent, nullLit]
      omega

end IastModel

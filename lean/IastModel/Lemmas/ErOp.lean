import IastModel.Lemmas.ErCore
namespace IastModel
open Node

def WinU (lo hi k0 k1 : Nat) (Δ : Env) : Prop := ∀ p ∈ Δ, (lo ≤ p.1 ∧ p.1 < hi) ∨ (k0 ≤ p.1 ∧ p.1 < k1)

theorem WinU.nil (lo hi k0 k1 : Nat) : WinU lo hi k0 k1 [] := by intro p hp; cases hp

theorem WinU.append {lo hi k0 k1 : Nat} {Δ Δ' : Env} (h : WinU lo hi k0 k1 Δ) (h' : WinU lo hi k0 k1 Δ') :
    WinU lo hi k0 k1 (Δ ++ Δ') := by
  intro p hp
  rcases List.mem_append.mp hp with hp | hp
  · exact h p hp
  · exact h' p hp

theorem WinU.mono {lo hi k0 k1 k0' k1' : Nat} {Δ : Env} (h : WinU lo hi k0 k1 Δ) (h1 : k0' ≤ k0) (h2 : k1 ≤ k1') :
    WinU lo hi k0' k1' Δ := by
  intro p hp; have := h p hp; omega

theorem Win.winU {lo hi k0 k1 : Nat} {Δ : Env} (h : Win lo hi Δ) : WinU lo hi k0 k1 Δ := by
  intro p hp; exact Or.inl (h p hp)

/-- side conditions on the windows: the operands' window lies below the context's window, which lies
    below the temporaries still to be allocated -/
structure HypW (cx : Cx) (hi : Nat) (s : St) : Prop where
  h1 : ∀ k, cx.bad k → hi ≤ k
  h2 : ∀ k, cx.bad k → k < s.counter
  h3 : hi ≤ s.counter

theorem HypW.mono {cx : Cx} {hi : Nat} {s s' : St} (h : HypW cx hi s) (hc : s.counter ≤ s'.counter) : HypW cx hi s' :=
  ⟨h.h1, fun k hk => by have := h.h2 k hk; omega, by have := h.h3; omega⟩

theorem WinU.avoidCx {cx : Cx} {lo hi : Nat} {s : St} {k1 : Nat} {Δ : Env} (hw : HypW cx hi s)
    (h : WinU lo hi s.counter k1 Δ) : AvoidP cx.bad Δ := by
  intro p hp hb
  have := h p hp
  have := hw.h1 _ hb; have := hw.h2 _ hb
  omega

/-- what the operand handler guarantees for one operand (for every replacement of nested blocks in
    what it produced) -/
def OpEr (cx : Cx) (lo hi : Nat) (e : Node) (asg args : List Node) (R : (Node × List Node × List Node) × St) (s : St) : Prop :=
  ∃ new more, R.1.2.1 = asg ++ new ∧ R.1.2.2 = args ++ more ∧ AllTA new ∧ InertL more ∧ noBlkL more = true ∧
    s.counter ≤ R.2.counter ∧
    (∀ new'', BRgL new new'' → ∀ σ, cx.ext σ → ∃ Δ, eraseAsg σ new'' = Δ ++ σ ∧ WinU lo hi s.counter R.2.counter Δ) ∧
    (∀ new'' x'', BRgL new new'' → BRg R.1.1 x'' → ∀ σ Δ2, cx.ext σ → Avoid s.counter R.2.counter Δ2 → AvoidP cx.bad Δ2 →
      ∃ X Δ3, erase (Δ2 ++ eraseAsg σ new'') x'' = (X, Δ3 ++ (Δ2 ++ eraseAsg σ new'')) ∧ ESim X e ∧ Win lo hi Δ3)

theorem opEr_inplace (cx : Cx) (lo hi : Nat) (e' e : Node) (asg args more : List Node) (s : St)
    (hE : Er cx lo hi e' e) (hm : InertL more) (hnb : noBlkL more = true) :
    OpEr cx lo hi e asg args ((e', asg, args ++ more), s) s := by
  refine ⟨[], more, by simp, rfl, AllTA.nil, hm, hnb, Nat.le_refl _, ?_, ?_⟩
  · intro new'' hn σ _
    rw [BRgL.nil_inv hn]
    exact ⟨[], rfl, WinU.nil _ _ _ _⟩
  · intro new'' x'' hn hx σ Δ2 hσ _ ha
    rw [BRgL.nil_inv hn]
    simp only [eraseAsg]
    exact hE x'' hx (Δ2 ++ σ) (Cx.ext_append hσ ha)

theorem erase_tempAssign (σ : Env) (k : Nat) (r : Node) (sp : Span) :
    erase σ (.assign "=" (tempIdent k) r sp) =
      (unSpread (erase σ r).1, (k, unSpread (erase σ r).1) :: (erase σ r).2) := by
  simp only [tempIdent, erase, tempTarget?]

theorem dummy_isDummy : Span.dummy.isDummy = true := by decide

theorem erase_assignRight (σ σ1 : Env) (e' X : Node) (kind : IdentKind) (h : erase σ e' = (X, σ1)) (hn : noSp X) :
    unSpread (erase σ (assignRight e' kind)).1 = X ∧ (erase σ (assignRight e' kind)).2 = σ1 := by
  cases kind with
  | expr =>
    refine ⟨?_, ?_⟩
    · simp only [assignRight, h]; exact noSp_unSpread hn
    · simp only [assignRight, h]
  | spread =>
    simp only [assignRight, erase, eraseL, h]
    simp [unSpread, dummy_isDummy]

theorem erase_temp (σ : Env) (k : Nat) (sp : Span) : erase σ (.ident (.temp k) sp) = ((σ.get k).getD (.ident (.temp k) sp), σ) := by
  simp only [erase]

theorem assignRight_BRg_inv {e' r'' : Node} {kind : IdentKind} (h : BRg (assignRight e' kind) r'') :
    ∃ e'', r'' = assignRight e'' kind ∧ BRg e' e'' := by
  cases kind with
  | expr => exact ⟨r'', rfl, h⟩
  | spread =>
    simp only [assignRight] at h
    obtain ⟨es', rfl, hes⟩ := h.array_inv
    obtain ⟨a', rfl, ha⟩ := BRgL.single_inv hes
    obtain ⟨e'', rfl, he⟩ := ha.arg_inv
    exact ⟨e'', rfl, he⟩

/-- a replacement inside `t = operand` only touches the operand -/
theorem tempAssign_BRg_inv {k : Nat} {e' a'' : Node} {kind : IdentKind} {sp : Span}
    (h : BRg (.assign "=" (tempIdent k) (assignRight e' kind) sp) a'') :
    ∃ e'', a'' = .assign "=" (tempIdent k) (assignRight e'' kind) sp ∧ BRg e' e'' := by
  obtain ⟨l', r', rfl, hl, hr⟩ := h.assign_inv
  rw [BRg_noBlk (noBlk_tempIdentE k) hl]
  obtain ⟨e'', rfl, he⟩ := assignRight_BRg_inv hr
  exact ⟨e'', rfl, he⟩

theorem noBlk_argE {s : Option Span} {e : Node} (h : noBlk e = true) : noBlk (.arg s e) = true := by
  rw [noBlk_eq]
  simp only [isBlockNode, kids, noBlkL_cons, noBlkL_nil, h]
  rfl

theorem noBlk_exprOrSpreadE {e : Node} (k : IdentKind) (h : noBlk e = true) : noBlk (exprOrSpread e k) = true := by
  cases k <;> exact noBlk_argE h

theorem opEr_hoist (cx : Cx) (lo hi : Nat) (e' e : Node) (asg args : List Node) (sp : Span) (kind : IdentKind) (s s' : St)
    (hw : HypW cx hi s) (hE : Er cx lo hi e' e) (hc : s'.counter = s.counter + 1) :
    OpEr cx lo hi e asg args
      ((tempIdent s.counter, asg ++ [.assign "=" (tempIdent s.counter) (assignRight e' kind) sp],
        args ++ [exprOrSpread (tempIdent s.counter) kind]), s') s := by
  have hta : AllTA [Node.assign "=" (tempIdent s.counter) (assignRight e' kind) sp] := by
    intro a ha
    simp only [List.mem_singleton] at ha
    subst ha
    simp [isTempAssign, tempIdent]
  have hin : InertL [exprOrSpread (tempIdent s.counter) kind] := by
    intro a ha
    simp only [List.mem_singleton] at ha
    subst ha
    exact inert_exprOrSpread kind (inert_temp _ _)
  have hnb : noBlkL [exprOrSpread (tempIdent s.counter) kind] = true := by
    simp [noBlk_exprOrSpreadE kind (noBlk_tempIdentE _)]
  have key : ∀ new'', BRgL [Node.assign "=" (tempIdent s.counter) (assignRight e' kind) sp] new'' →
      ∀ σ, cx.ext σ → ∃ X Δe, eraseAsg σ new'' = (s.counter, X) :: (Δe ++ σ) ∧ ESim X e ∧ Win lo hi Δe := by
    intro new'' hn σ hσ
    obtain ⟨a'', rfl, ha⟩ := BRgL.single_inv hn
    obtain ⟨e'', rfl, he⟩ := tempAssign_BRg_inv ha
    obtain ⟨X, Δe, h1, h2, h3⟩ := hE e'' he σ hσ
    refine ⟨X, Δe, ?_, h2, h3⟩
    simp only [eraseAsg, erase_tempAssign]
    obtain ⟨a, b⟩ := erase_assignRight σ (Δe ++ σ) e'' X kind h1 h2.2.2
    rw [a, b]
  refine ⟨_, _, rfl, rfl, hta, hin, hnb, by dsimp only; omega, ?_, ?_⟩
  · intro new'' hn σ hσ
    obtain ⟨X, Δe, h1, _, h3⟩ := key new'' hn σ hσ
    refine ⟨(s.counter, X) :: Δe, by rw [h1]; rfl, ?_⟩
    intro p hp
    rcases List.mem_cons.mp hp with hp | hp
    · subst hp; right; dsimp only; omega
    · exact Or.inl (h3 p hp)
  · intro new'' x'' hn hx σ Δ2 hσ hav _
    dsimp only at hav hx
    rw [BRg_noBlk (noBlk_tempIdentE _) hx]
    obtain ⟨X, Δe, h1, h2, _⟩ := key new'' hn σ hσ
    refine ⟨X, [], ?_, h2, Win.nil _ _⟩
    rw [h1]
    simp only [tempIdent, erase_temp, List.nil_append]
    rw [Env.get_append_of_notin _ _ _ (by intro p hp; have := hav p hp; omega), Env.get_cons_same]
    rfl

theorem getTemporalIdent_casesC (operand : Node) (asg : List Node) (sp : Span) (k : IdentKind) (s : St) :
    (operand.isLit = true ∧ getTemporalIdent operand asg sp k s = ((none, asg), s)) ∨
    (operand.isLit = false ∧ ∃ s', getTemporalIdent operand asg sp k s =
        ((some s.counter, asg ++ [.assign "=" (tempIdent s.counter) (assignRight operand k) sp]), s') ∧
        s'.counter = s.counter + 1) := by
  unfold getTemporalIdent
  by_cases hl : operand.isLit = true
  · left; simp [hl, run_pure]
  · right
    simp only [Bool.not_eq_true] at hl
    refine ⟨hl, ?_⟩
    simp only [hl, Bool.false_eq_true, if_false, run_bind, run_pure]
    refine ⟨_, rfl, ?_⟩
    simp only [nextIdent, registerIdent, run_modifyGet, run_modify]
    by_cases hc : s.counter ∈ s.idents <;> simp [hc]

theorem getIdentUsed_casesC (operand : Node) (asg args : List Node) (sp : Span) (k : IdentKind) (s : St) :
    (operand.isLit = true ∧ getIdentUsed operand asg args sp k s = ((none, asg, args ++ [exprOrSpread operand k]), s)) ∨
    (operand.isLit = false ∧ ∃ s', getIdentUsed operand asg args sp k s =
        ((some s.counter, asg ++ [.assign "=" (tempIdent s.counter) (assignRight operand k) sp],
          args ++ [exprOrSpread (tempIdent s.counter) k]), s') ∧ s'.counter = s.counter + 1) := by
  unfold getIdentUsed
  rcases getTemporalIdent_casesC operand asg sp k s with ⟨hl, h⟩ | ⟨hl, s', h, hc⟩
  · left; simp [hl, run_bind, run_pure, h]
  · right; exact ⟨hl, s', by simp [run_bind, run_pure, h], hc⟩

theorem replaceDefault_Er (cx : Cx) (lo hi : Nat) (e' e : Node) (asg args : List Node) (sp : Span) (kind : IdentKind) (s : St)
    (hw : HypW cx hi s) (hE : Er cx lo hi e' e) :
    OpEr cx lo hi e asg args (replaceDefault e' asg args sp kind s) s := by
  unfold replaceDefault
  simp only [run_bind, run_pure]
  rcases getIdentUsed_casesC e' asg args sp kind s with ⟨hl, h⟩ | ⟨_, s', h, hc⟩
  · rw [h]
    exact opEr_inplace cx lo hi e' e asg args _ s hE (by
      intro a ha
      simp only [List.mem_singleton] at ha
      subst ha
      exact inert_exprOrSpread kind (inert_lit hl)) (by simp [noBlk_exprOrSpreadE kind (noBlk_litE hl)])
  · rw [h]
    exact opEr_hoist cx lo hi e' e asg args sp kind s s' hw hE hc

theorem inert_user (x : String) (sp : Span) : Inert (.ident (.user x) sp) := by intro σ; simp [erase]

theorem inert_ident {e : Node} (h : e.isIdent = true) : Inert e := by
  cases e with
  | ident nm sp => cases nm with
    | user x => exact inert_user x sp
    | temp k => exact inert_temp k sp
  | _ => simp [Node.isIdent] at h

theorem inert_litSum : ∀ e : Node, isLiteralSum e = true → Inert e := by
  apply Node.ind
  intro e ih h
  cases e with
  | lit k v r sp => exact inert_lit rfl
  | bin op l r sp =>
    simp only [isLiteralSum, Bool.and_eq_true] at h
    show ∀ σ, (erase σ (Node.bin op l r sp)).2 = σ
    intro σ
    have h1 := ih l (by simp [kids]) h.1.2 σ
    have h2 := ih r (by simp [kids]) h.2 σ
    show (erase (erase σ l).2 r).2 = σ
    rw [h1]; exact h2
  | _ => simp [isLiteralSum] at h

theorem noBlk_litSum : ∀ e : Node, isLiteralSum e = true → noBlk e = true := by
  apply Node.ind
  intro e ih h
  cases e with
  | lit k v r sp => exact noBlk_litE rfl
  | bin op l r sp =>
    simp only [isLiteralSum, Bool.and_eq_true] at h
    rw [noBlk_eq]
    simp only [isBlockNode, kids, noBlkL_cons, noBlkL_nil, ih l (by simp [kids]) h.1.2, ih r (by simp [kids]) h.2]
    rfl
  | _ => simp [isLiteralSum] at h

theorem replaceExprNoExpand_Er (cx : Cx) (lo hi : Nat) (e' e : Node) (mode : IdentMode) (asg args : List Node) (sp : Span)
    (kind : IdentKind) (s : St) (hw : HypW cx hi s) (hE : Er cx lo hi e' e) :
    OpEr cx lo hi e asg args (replaceExprNoExpand e' mode asg args sp kind s) s := by
  have single : ∀ a : Node, Inert a → InertL [exprOrSpread a kind] := by
    intro a ha x hx
    simp only [List.mem_singleton] at hx
    subst hx
    exact inert_exprOrSpread kind ha
  have singleNb : ∀ a : Node, noBlk a = true → noBlkL [exprOrSpread a kind] = true := by
    intro a ha; simp [noBlk_exprOrSpreadE kind ha]
  cases e' with
  | lit k v r lsp =>
    simp only [replaceExprNoExpand, run_pure]
    exact opEr_inplace cx lo hi _ e asg args _ s hE (single _ (inert_lit rfl)) (singleNb _ (noBlk_litE rfl))
  | ident nm isp =>
    cases mode with
    | replace => simp only [replaceExprNoExpand]; exact replaceDefault_Er cx lo hi _ e asg args sp kind s hw hE
    | keep =>
      simp only [replaceExprNoExpand, run_pure]
      exact opEr_inplace cx lo hi _ e asg args _ s hE (single _ (inert_ident rfl)) (singleNb _ (noBlk_identE _ _))
  | bin op l r bsp =>
    simp only [replaceExprNoExpand]
    split
    · exact replaceDefault_Er cx lo hi _ e asg args sp kind s hw hE
    · split
      · rename_i hls
        simp only [run_pure]
        exact opEr_inplace cx lo hi _ e asg args _ s hE (single _ (inert_litSum _ hls)) (singleNb _ (noBlk_litSum _ hls))
      · simp only [run_pure]
        have := opEr_inplace cx lo hi (.bin op l r bsp) e asg args [] s hE InertL.nil rfl
        simpa using this
  | _ => simp only [replaceExprNoExpand]; exact replaceDefault_Er cx lo hi _ e asg args sp kind s hw hE

end IastModel

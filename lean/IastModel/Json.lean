/-
  Order-preserving JSON (swc's serde output keeps struct-declaration order, which is the visit order
  of swc's generated visitors; Lean's own `Lean.Json` sorts object keys, so it cannot be used).
  Glue code: parser and printer are `partial`, nothing is proved about them; they are exercised on
  every record of every run.
-/
namespace IastModel

inductive J where
  | null
  | bool (b : Bool)
  | num (lexeme : String)
  | str (s : String)
  | arr (xs : List J)
  | obj (kvs : List (String × J))
deriving Inhabited, Repr

namespace J

def get? (j : J) (k : String) : Option J :=
  match j with
  | obj kvs => (kvs.find? (·.1 == k)).map (·.2)
  | _ => none

def getD (j : J) (k : String) (d : J := .null) : J := (j.get? k).getD d

def str? : J → Option String
  | str s => some s
  | _ => none

def strD (j : J) (d : String := "") : String := j.str?.getD d

def isNull : J → Bool
  | null => true
  | _ => false

def nat? : J → Option Nat
  | num l =>
    -- accept "12", "12.0"
    match l.splitOn "." with
    | [a] => a.toNat?
    | [a, b] => if b.all (· == '0') then a.toNat? else none
    | _ => none
  | _ => none

def natD (j : J) (d : Nat := 0) : Nat := j.nat?.getD d

def bool? : J → Option Bool
  | bool b => some b
  | _ => none

def arr? : J → Option (List J)
  | arr xs => some xs
  | _ => none

def arrD (j : J) : List J := j.arr?.getD []

/-! ### printer -/

def hexDigit (n : Nat) : Char :=
  if n < 10 then Char.ofNat (48 + n) else Char.ofNat (87 + n)

def escapeString (s : String) : String := Id.run do
  let mut out := "\""
  for c in s.toList do
    if c == '"' then out := out ++ "\\\""
    else if c == '\\' then out := out ++ "\\\\"
    else if c == '\n' then out := out ++ "\\n"
    else if c == '\r' then out := out ++ "\\r"
    else if c == '\t' then out := out ++ "\\t"
    else if c.toNat < 0x20 then
      out := out ++ "\\u00" ++ String.singleton (hexDigit (c.toNat / 16)) ++ String.singleton (hexDigit (c.toNat % 16))
    else out := out.push c
  return out.push '"'

partial def render : J → String
  | null => "null"
  | bool true => "true"
  | bool false => "false"
  | num l => l
  | str s => escapeString s
  | arr xs => "[" ++ ",".intercalate (xs.map render) ++ "]"
  | obj kvs => "{" ++ ",".intercalate (kvs.map fun (k, v) => escapeString k ++ ":" ++ render v) ++ "}"

/-! ### parser over UTF-8 bytes -/

structure PState where
  bytes : ByteArray
  pos : Nat

abbrev P := ExceptT String (StateM PState)

@[inline] def peek : P UInt8 := do
  let s ← get
  if h : s.pos < s.bytes.size then pure s.bytes[s.pos] else pure 0

@[inline] def atEnd : P Bool := do
  let s ← get
  pure (s.pos ≥ s.bytes.size)

@[inline] def advance (n : Nat := 1) : P Unit := modify fun s => { s with pos := s.pos + n }

partial def skipWs : P Unit := do
  let c ← peek
  if c == 32 || c == 10 || c == 13 || c == 9 then do advance; skipWs else pure ()

def expectByte (b : UInt8) : P Unit := do
  let c ← peek
  if c == b then advance else throw s!"expected byte {b} got {c} at {(← get).pos}"

def hexVal (c : UInt8) : Nat :=
  if 48 ≤ c && c ≤ 57 then (c - 48).toNat
  else if 97 ≤ c && c ≤ 102 then (c - 87).toNat
  else if 65 ≤ c && c ≤ 70 then (c - 55).toNat
  else 0

def pushUtf8 (out : ByteArray) (cp : Nat) : ByteArray :=
  if cp < 0x80 then out.push cp.toUInt8
  else if cp < 0x800 then (out.push (0xC0 ||| (cp >>> 6)).toUInt8).push (0x80 ||| (cp &&& 0x3F)).toUInt8
  else if cp < 0x10000 then
    ((out.push (0xE0 ||| (cp >>> 12)).toUInt8).push (0x80 ||| ((cp >>> 6) &&& 0x3F)).toUInt8).push (0x80 ||| (cp &&& 0x3F)).toUInt8
  else
    (((out.push (0xF0 ||| (cp >>> 18)).toUInt8).push (0x80 ||| ((cp >>> 12) &&& 0x3F)).toUInt8).push
      (0x80 ||| ((cp >>> 6) &&& 0x3F)).toUInt8).push (0x80 ||| (cp &&& 0x3F)).toUInt8

def read4hex : P Nat := do
  let s ← get
  let b := s.bytes
  let p := s.pos
  if p + 4 > b.size then throw "bad \\u escape"
  let v := hexVal b[p]! * 4096 + hexVal b[p+1]! * 256 + hexVal b[p+2]! * 16 + hexVal b[p+3]!
  advance 4
  pure v

partial def parseStringBody (out : ByteArray) : P ByteArray := do
  let c ← peek
  if (← atEnd) then throw "unterminated string"
  if c == 34 then do advance; pure out
  else if c == 92 then do
    advance
    let e ← peek
    advance
    if e == 110 then parseStringBody (out.push 10)
    else if e == 116 then parseStringBody (out.push 9)
    else if e == 114 then parseStringBody (out.push 13)
    else if e == 98 then parseStringBody (out.push 8)
    else if e == 102 then parseStringBody (out.push 12)
    else if e == 117 then do
      let hi ← read4hex
      if 0xD800 ≤ hi && hi < 0xDC00 then do
        -- surrogate pair
        let c1 ← peek
        if c1 == 92 then do
          advance; advance
          let lo ← read4hex
          if 0xDC00 ≤ lo && lo < 0xE000 then
            parseStringBody (pushUtf8 out (0x10000 + (hi - 0xD800) * 1024 + (lo - 0xDC00)))
          else parseStringBody (pushUtf8 (pushUtf8 out 0xFFFD) 0xFFFD)
        else parseStringBody (pushUtf8 out 0xFFFD)
      else if 0xDC00 ≤ hi && hi < 0xE000 then parseStringBody (pushUtf8 out 0xFFFD)
      else parseStringBody (pushUtf8 out hi)
    else parseStringBody (out.push e)
  else do advance; parseStringBody (out.push c)

def bytesToString (b : ByteArray) : String :=
  match String.fromUTF8? b with
  | some s => s
  | none => "�"

def parseString : P String := do
  expectByte 34
  let b ← parseStringBody ByteArray.empty
  pure (bytesToString b)

partial def parseNumLexeme (out : ByteArray) : P ByteArray := do
  let c ← peek
  if (48 ≤ c && c ≤ 57) || c == 45 || c == 43 || c == 46 || c == 101 || c == 69 then do
    advance; parseNumLexeme (out.push c)
  else pure out

mutual
partial def parseValue : P J := do
  skipWs
  let c ← peek
  if c == 123 then do advance; parseObj []
  else if c == 91 then do advance; parseArr []
  else if c == 34 then do pure (.str (← parseString))
  else if c == 116 then do advance 4; pure (.bool true)
  else if c == 102 then do advance 5; pure (.bool false)
  else if c == 110 then do advance 4; pure .null
  else do
    let b ← parseNumLexeme ByteArray.empty
    if b.size == 0 then throw s!"unexpected byte {c} at {(← get).pos}"
    pure (.num (bytesToString b))

partial def parseArr (acc : List J) : P J := do
  skipWs
  let c ← peek
  if c == 93 then do advance; pure (.arr acc.reverse)
  else do
    let v ← parseValue
    skipWs
    let c ← peek
    if c == 44 then do advance; parseArr (v :: acc)
    else if c == 93 then do advance; pure (.arr (v :: acc).reverse)
    else throw s!"bad array at {(← get).pos}"

partial def parseObj (acc : List (String × J)) : P J := do
  skipWs
  let c ← peek
  if c == 125 then do advance; pure (.obj acc.reverse)
  else do
    let k ← parseString
    skipWs
    expectByte 58
    let v ← parseValue
    skipWs
    let c ← peek
    if c == 44 then do advance; parseObj ((k, v) :: acc)
    else if c == 125 then do advance; pure (.obj ((k, v) :: acc).reverse)
    else throw s!"bad object at {(← get).pos}"
end

def parse (s : String) : Except String J :=
  let (r, _) := (parseValue.run).run { bytes := s.toUTF8, pos := 0 }
  r

end J
end IastModel

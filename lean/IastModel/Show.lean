import IastModel.Syntax
/- human-readable rendering and structural diff of trees, for reports only (glue, `partial`) -/
namespace IastModel
namespace Node

def nameStr (pfx : String) : Name → String
  | .user s => s
  | .temp n => pfx ++ toString n

partial def render (pfx : String) : Node → String
  | atom s => s
  | arr xs => "[" ++ ", ".intercalate (xs.map (render pfx)) ++ "]"
  | obj ns vs => "{" ++ ", ".intercalate ((ns.zip vs).map fun (k, v) => k ++ ": " ++ render pfx v) ++ "}"
  | other k _ ns vs =>
    match k, vs with
    | "ReturnStatement", [e] => "return " ++ render pfx e ++ ";"
    | _, _ => k ++ "{" ++ ", ".intercalate ((ns.zip vs).map fun (k, v) => k ++ ": " ++ render pfx v) ++ "}"
  | lit k v r _ => if k == "StringLiteral" then r else if k == "NullLiteral" then "null" else v
  | ident n _ => nameStr pfx n
  | pname n _ => n
  | bin op l r _ => render pfx l ++ " " ++ op ++ " " ++ render pfx r
  | assign op l r _ => render pfx l ++ " " ++ op ++ " " ++ render pfx r
  | tpl es qs _ => "`tpl(" ++ ", ".intercalate (es.map (render pfx)) ++ ")/" ++ toString qs.length ++ "`"
  | call c as _ => render pfx c ++ "(" ++ ", ".intercalate (as.map (render pfx)) ++ ")"
  | arg s e => (if s.isSome then "..." else "") ++ render pfx e
  | member o p _ =>
    match p with
    | pname n _ => render pfx o ++ "." ++ n
    | _ => render pfx o ++ "[" ++ render pfx p ++ "]"
  | optChain opt b _ => (if opt then "?<" else "<") ++ render pfx b ++ ">"
  | optCall c as _ => render pfx c ++ "?(" ++ ", ".intercalate (as.map (render pfx)) ++ ")"
  | unary op a _ => op ++ " " ++ render pfx a
  | arrow ps b _ _ => "(" ++ ", ".intercalate (ps.map (render pfx)) ++ ") => " ++ render pfx b
  | paren e _ => "(" ++ render pfx e ++ ")"
  | seq es _ => ", ".intercalate (es.map (render pfx))
  | cond t c a _ => render pfx t ++ " ? " ++ render pfx c ++ " : " ++ render pfx a
  | array es _ => "[" ++ ", ".intercalate (es.map (render pfx)) ++ "]"
  | block ss _ => "{ " ++ " ".intercalate (ss.map (render pfx)) ++ " }"
  | ifStmt t c a _ => "if (" ++ render pfx t ++ ") " ++ render pfx c ++ " else " ++ render pfx a
  | exprStmt e _ => render pfx e ++ ";"

def short (pfx : String) (n : Node) : String :=
  let s := render pfx n
  if s.length > 300 then (s.take 300).toString ++ "…" else s

/-- first difference: path, and what stands there on each side -/
partial def diff (pfx : String) (path : String) (a b : Node) : Option (String × String × String) :=
  let leaf := some (path, kindName a ++ "@" ++ toString a.span ++ " " ++ short pfx a, kindName b ++ "@" ++ toString b.span ++ " " ++ short pfx b)
  let rec diffL (path : String) (i : Nat) : List Node → List Node → Option (String × String × String)
    | [], [] => none
    | x :: xs, y :: ys => (diff pfx (path ++ "[" ++ toString i ++ "]") x y).orElse fun _ => diffL path (i + 1) xs ys
    | xs, ys => some (path ++ ".length", toString (i + xs.length), toString (i + ys.length))
  match a, b with
  | atom x, atom y => if x == y then none else leaf
  | arr xs, arr ys => diffL path 0 xs ys
  | obj n xs, obj m ys => if n == m then diffL path 0 xs ys else leaf
  | other k s n xs, other k' s' n' ys =>
    if k == k' && s == s' && n == n' then diffL (path ++ "/" ++ k) 0 xs ys else leaf
  | lit k v r s, lit k' v' r' s' => if k == k' && v == v' && r == r' && s == s' then none else leaf
  | ident n s, ident n' s' => if n == n' && s == s' then none else leaf
  | pname n s, pname n' s' => if n == n' && s == s' then none else leaf
  | bin o l r s, bin o' l' r' s' =>
    if o == o' && s == s' then (diff pfx (path ++ "/bin.l") l l').orElse fun _ => diff pfx (path ++ "/bin.r") r r' else leaf
  | assign o l r s, assign o' l' r' s' =>
    if o == o' && s == s' then (diff pfx (path ++ "/assign.l") l l').orElse fun _ => diff pfx (path ++ "/assign.r") r r' else leaf
  | tpl e q s, tpl e' q' s' =>
    if s == s' then (diffL (path ++ "/tpl.exprs") 0 e e').orElse fun _ => diffL (path ++ "/tpl.quasis") 0 q q' else leaf
  | call c as s, call c' as' s' =>
    if s == s' then (diff pfx (path ++ "/call.callee") c c').orElse fun _ => diffL (path ++ "/call.args") 0 as as' else leaf
  | arg sp e, arg sp' e' => if sp == sp' then diff pfx (path ++ "/arg") e e' else leaf
  | member o p s, member o' p' s' =>
    if s == s' then (diff pfx (path ++ "/member.obj") o o').orElse fun _ => diff pfx (path ++ "/member.prop") p p' else leaf
  | optChain o x s, optChain o' x' s' => if o == o' && s == s' then diff pfx (path ++ "/optChain") x x' else leaf
  | optCall c as s, optCall c' as' s' =>
    if s == s' then (diff pfx (path ++ "/optCall.callee") c c').orElse fun _ => diffL (path ++ "/optCall.args") 0 as as' else leaf
  | unary o x s, unary o' x' s' => if o == o' && s == s' then diff pfx (path ++ "/unary") x x' else leaf
  | arrow p x t s, arrow p' x' t' s' =>
    if t == t' && s == s' then (diffL (path ++ "/arrow.params") 0 p p').orElse fun _ => diff pfx (path ++ "/arrow.body") x x' else leaf
  | paren e s, paren e' s' => if s == s' then diff pfx (path ++ "/paren") e e' else leaf
  | seq e s, seq e' s' => if s == s' then diffL (path ++ "/seq") 0 e e' else leaf
  | cond t c x s, cond t' c' x' s' =>
    if s == s' then ((diff pfx (path ++ "/cond.t") t t').orElse fun _ => diff pfx (path ++ "/cond.c") c c').orElse fun _ => diff pfx (path ++ "/cond.a") x x' else leaf
  | array e s, array e' s' => if s == s' then diffL (path ++ "/array") 0 e e' else leaf
  | block e s, block e' s' => if s == s' then diffL (path ++ "/block") 0 e e' else leaf
  | ifStmt t c x s, ifStmt t' c' x' s' =>
    if s == s' then ((diff pfx (path ++ "/if.t") t t').orElse fun _ => diff pfx (path ++ "/if.c") c c').orElse fun _ => diff pfx (path ++ "/if.a") x x' else leaf
  | exprStmt e s, exprStmt e' s' => if s == s' then diff pfx (path ++ "/exprStmt") e e' else leaf
  | _, _ => leaf

end Node
end IastModel

namespace IastModel
namespace Node

/-- does the optional chain `n` still contain a `?.` link along its spine -/
partial def spineHasOptional : Node → Bool
  | optChain true _ _ => true
  | optChain false b _ => spineHasOptional b
  | optCall c _ _ => (match c with | optChain .. => spineHasOptional c | _ => false)
  | member o _ _ => (match o with | optChain .. => spineHasOptional o | _ => false)
  | _ => false

def isEmptyStmt : Node → Bool
  | other "EmptyStatement" _ _ _ => true
  | _ => false

/-- normal form used to compare the in-memory output tree with the re-parsed printed text: no
    parentheses, no source positions, no literal spelling (glue) -/
partial def normText : Node → Node
  | paren e _ => normText e
  | lit k v _ _ => lit k (if k == "StringLiteral" then v else "") "" Span.dummy
  | ident n _ => ident n Span.dummy
  | pname n _ => pname n Span.dummy
  | other k _ ns vs =>
    -- drop `raw` spellings of template elements
    let kv := (ns.zip vs).filter fun p => p.1 != "raw"
    other k Span.dummy (kv.map (·.1)) (kv.map fun p => normText p.2)
  | arg s e => arg (s.map fun _ => Span.dummy) (normText e)
  | obj ns vs =>
    if ns == ["start", "end"] then obj [] []
    else
      let kv := (ns.zip vs).filter fun p => p.1 != "span"
      obj (kv.map (·.1)) (kv.map fun p => normText p.2)
  | n =>
    let n' := n.withKids (n.kids.map normText)
    match n' with
    | bin o l r _ => bin o l r Span.dummy
    | assign o l r _ => assign o l r Span.dummy
    | tpl e q _ => tpl e q Span.dummy
    | call c a _ =>
      -- a call / member access printed right after an optional chain continues that chain
      (match c with
       | optChain .. => if spineHasOptional c then optChain false (optCall c a Span.dummy) Span.dummy else call c a Span.dummy
       | _ => call c a Span.dummy)
    | member o p _ =>
      (match o with
       | optChain .. => if spineHasOptional o then optChain false (member o p Span.dummy) Span.dummy else member o p Span.dummy
       | _ => member o p Span.dummy)
    | optChain o (optChain false (member mo mp _) _) _ =>
      -- the member rule below already wrapped the base of this link
      optChain o (member mo mp Span.dummy) Span.dummy
    | optChain o b _ =>
      -- a chain wrapper left behind by the lowering with no `?.` below it prints as plain code
      if !o && !spineHasOptional b then
        (match b with
         | optCall c a _ => call c a Span.dummy
         | other' => other')
      else optChain o b Span.dummy
    | optCall c a _ => optCall c a Span.dummy
    | unary o a _ => unary o a Span.dummy
    | arrow p b t _ => arrow p b t Span.dummy
    | seq e _ => seq e Span.dummy
    | cond t c a _ => cond t c a Span.dummy
    | array e _ => array e Span.dummy
    | block e _ => block (e.filter fun x => !isEmptyStmt x) Span.dummy
    | arr xs => arr (xs.filter fun x => !isEmptyStmt x)
    | ifStmt t c a _ => ifStmt t c a Span.dummy
    | exprStmt e _ => exprStmt e Span.dummy
    | m => m

end Node
end IastModel

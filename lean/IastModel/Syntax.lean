import IastModel.Json
/-
  The syntax tree the model works on.

  One inductive type `Node`.  The node kinds the rewriter's code inspects have their own constructors;
  every other swc node kind is `other kind span fieldNames fieldValues` with its children in swc's
  declaration order (= visit order).  Untyped JSON objects are `obj`, arrays `arr`, scalars `atom`.

  Typed constructors are only ever built for nodes in the position swc types as `Expr` (or, for
  `ident`, the `Ident` struct; for `block`, `BlockStmt`; …).  The two places where a node with an
  expression's JSON type is *not* dispatched through `visit_mut_expr` are kept apart at conversion time:
  `OptChainBase::Call` becomes `optCall`, a tagged template's `Tpl` becomes `other "TemplateLiteral"`.
-/
namespace IastModel

structure Span where
  lo : Nat
  hi : Nat
deriving DecidableEq, Repr, Inhabited, BEq, Hashable

def Span.dummy : Span := ⟨0, 0⟩
def Span.isDummy (s : Span) : Bool := s.lo == 0 && s.hi == 0

instance : ToString Span := ⟨fun s => s!"{s.lo}-{s.hi}"⟩

/-- identifier names: user text, or the n-th injected temporary of the enclosing block -/
inductive Name where
  | user (s : String)
  | temp (n : Nat)
deriving DecidableEq, Repr, Inhabited, BEq, Hashable

inductive Node where
  | atom (s : String)
  | arr (xs : List Node)
  | obj (names : List String) (vals : List Node)
  | other (kind : String) (sp : Span) (names : List String) (vals : List Node)
  | lit (kind value raw : String) (sp : Span)
  | ident (n : Name) (sp : Span)
  | pname (name : String) (sp : Span)
  | bin (op : String) (l r : Node) (sp : Span)
  | assign (op : String) (left r : Node) (sp : Span)
  | tpl (exprs quasis : List Node) (sp : Span)
  | call (callee : Node) (args : List Node) (sp : Span)
  | arg (spread : Option Span) (e : Node)
  | member (obj prop : Node) (sp : Span)
  | optChain (optional : Bool) (base : Node) (sp : Span)
  | optCall (callee : Node) (args : List Node) (sp : Span)
  | unary (op : String) (a : Node) (sp : Span)
  | arrow (params : List Node) (body : Node) (attrs : String) (sp : Span)
  | paren (e : Node) (sp : Span)
  | seq (es : List Node) (sp : Span)
  | cond (t c a : Node) (sp : Span)
  | array (elems : List Node) (sp : Span)
  | block (stmts : List Node) (sp : Span)
  | ifStmt (test cons alt : Node) (sp : Span)
  | exprStmt (e : Node) (sp : Span)
deriving Inhabited, Repr

namespace Node

mutual
def beq : Node → Node → Bool
  | atom a, atom b => a == b
  | arr a, arr b => beqL a b
  | obj n a, obj m b => n == m && beqL a b
  | other k s n a, other k' s' n' a' => k == k' && s == s' && n == n' && beqL a a'
  | lit k v r s, lit k' v' r' s' => k == k' && v == v' && r == r' && s == s'
  | ident n s, ident n' s' => n == n' && s == s'
  | pname n s, pname n' s' => n == n' && s == s'
  | bin o l r s, bin o' l' r' s' => o == o' && beq l l' && beq r r' && s == s'
  | assign o l r s, assign o' l' r' s' => o == o' && beq l l' && beq r r' && s == s'
  | tpl e q s, tpl e' q' s' => beqL e e' && beqL q q' && s == s'
  | call c a s, call c' a' s' => beq c c' && beqL a a' && s == s'
  | arg sp e, arg sp' e' => sp == sp' && beq e e'
  | member o p s, member o' p' s' => beq o o' && beq p p' && s == s'
  | optChain b x s, optChain b' x' s' => b == b' && beq x x' && s == s'
  | optCall c a s, optCall c' a' s' => beq c c' && beqL a a' && s == s'
  | unary o a s, unary o' a' s' => o == o' && beq a a' && s == s'
  | arrow p b at' s, arrow p' b' at'' s' => beqL p p' && beq b b' && at' == at'' && s == s'
  | paren e s, paren e' s' => beq e e' && s == s'
  | seq e s, seq e' s' => beqL e e' && s == s'
  | cond t c a s, cond t' c' a' s' => beq t t' && beq c c' && beq a a' && s == s'
  | array e s, array e' s' => beqL e e' && s == s'
  | block e s, block e' s' => beqL e e' && s == s'
  | ifStmt t c a s, ifStmt t' c' a' s' => beq t t' && beq c c' && beq a a' && s == s'
  | exprStmt e s, exprStmt e' s' => beq e e' && s == s'
  | _, _ => false
def beqL : List Node → List Node → Bool
  | [], [] => true
  | a :: as, b :: bs => beq a b && beqL as bs
  | _, _ => false
end

-- equality up to source positions
mutual
def eqNS : Node → Node → Bool
  | atom a, atom b => a == b
  | arr a, arr b => eqNSL a b
  | obj n a, obj m b => n == m && eqNSL a b
  | other k s n a, other k' s' n' a' => k == k' && n == n' && eqNSL a a'
  | lit k v r s, lit k' v' r' s' => k == k' && v == v' && r == r'
  | ident n s, ident n' s' => n == n'
  | pname n s, pname n' s' => n == n'
  | bin o l r s, bin o' l' r' s' => o == o' && eqNS l l' && eqNS r r'
  | assign o l r s, assign o' l' r' s' => o == o' && eqNS l l' && eqNS r r'
  | tpl e q s, tpl e' q' s' => eqNSL e e' && eqNSL q q'
  | call c a s, call c' a' s' => eqNS c c' && eqNSL a a'
  | arg sp e, arg sp' e' => sp.isSome == sp'.isSome && eqNS e e'
  | member o p s, member o' p' s' => eqNS o o' && eqNS p p'
  | optChain b x s, optChain b' x' s' => b == b' && eqNS x x'
  | optCall c a s, optCall c' a' s' => eqNS c c' && eqNSL a a'
  | unary o a s, unary o' a' s' => o == o' && eqNS a a'
  | arrow p b at' s, arrow p' b' at'' s' => eqNSL p p' && eqNS b b' && at' == at''
  | paren e s, paren e' s' => eqNS e e'
  | seq e s, seq e' s' => eqNSL e e'
  | cond t c a s, cond t' c' a' s' => eqNS t t' && eqNS c c' && eqNS a a'
  | array e s, array e' s' => eqNSL e e'
  | block e s, block e' s' => eqNSL e e'
  | ifStmt t c a s, ifStmt t' c' a' s' => eqNS t t' && eqNS c c' && eqNS a a'
  | exprStmt e s, exprStmt e' s' => eqNS e e'
  | _, _ => false
def eqNSL : List Node → List Node → Bool
  | [], [] => true
  | a :: as, b :: bs => eqNS a b && eqNSL as bs
  | _, _ => false
end


instance : BEq Node := ⟨beq⟩

/-- the span swc's `Spanned` gives an expression -/
def span : Node → Span
  | other _ s _ _ => s
  | lit _ _ _ s => s
  | ident _ s => s
  | pname _ s => s
  | bin _ _ _ s => s
  | assign _ _ _ s => s
  | tpl _ _ s => s
  | call _ _ s => s
  | member _ _ s => s
  | optChain _ _ s => s
  | optCall _ _ s => s
  | unary _ _ s => s
  | arrow _ _ _ s => s
  | paren _ s => s
  | seq _ s => s
  | cond _ _ _ s => s
  | array _ s => s
  | block _ s => s
  | ifStmt _ _ _ s => s
  | exprStmt _ s => s
  | arg _ e => e.span
  | _ => Span.dummy

def isLit : Node → Bool
  | lit .. => true
  | _ => false

def isIdent : Node → Bool
  | ident .. => true
  | _ => false

def kindName : Node → String
  | atom _ => "atom"
  | arr _ => "arr"
  | obj .. => "obj"
  | other k .. => k
  | lit k .. => k
  | ident .. => "Identifier"
  | pname .. => "IdentName"
  | bin .. => "BinaryExpression"
  | assign .. => "AssignmentExpression"
  | tpl .. => "TemplateLiteral"
  | call .. => "CallExpression"
  | arg .. => "ExprOrSpread"
  | member .. => "MemberExpression"
  | optChain .. => "OptionalChainingExpression"
  | optCall .. => "OptCall"
  | unary .. => "UnaryExpression"
  | arrow .. => "ArrowFunctionExpression"
  | paren .. => "ParenthesisExpression"
  | seq .. => "SequenceExpression"
  | cond .. => "ConditionalExpression"
  | array .. => "ArrayExpression"
  | block .. => "BlockStatement"
  | ifStmt .. => "IfStatement"
  | exprStmt .. => "ExpressionStatement"

/-- look a field of an `other`/`rec` node up by name -/
def field? (n : Node) (name : String) : Option Node :=
  match n with
  | other _ _ names vals => go names vals
  | obj names vals => go names vals
  | _ => none
where
  go : List String → List Node → Option Node
    | k :: ks, v :: vs => if k == name then some v else go ks vs
    | _, _ => none

mutual
/-- number of swc nodes (JSON objects carrying a `type`) in the tree -/
def size : Node → Nat
  | atom _ => 0
  | arr xs => sizeL xs
  | obj _ vs => sizeL vs
  | other _ _ _ vs => 1 + sizeL vs
  | lit .. => 1
  | ident .. => 1
  | pname .. => 1
  | bin _ l r _ => 1 + size l + size r
  | assign _ l r _ => 1 + size l + size r
  | tpl e q _ => 1 + sizeL e + sizeL q
  | call c a _ => 1 + size c + sizeL a
  | arg _ e => size e
  | member o p _ => 1 + size o + size p
  | optChain _ b _ => 1 + size b
  | optCall c a _ => 1 + size c + sizeL a
  | unary _ a _ => 1 + size a
  | arrow p b _ _ => 1 + sizeL p + size b
  | paren e _ => 1 + size e
  | seq es _ => 1 + sizeL es
  | cond t c a _ => 1 + size t + size c + size a
  | array es _ => 1 + sizeL es
  | block ss _ => 1 + sizeL ss
  | ifStmt t c a _ => 1 + size t + size c + size a
  | exprStmt e _ => 1 + size e
def sizeL : List Node → Nat
  | [] => 0
  | x :: xs => size x + sizeL xs
end

/-- immediate children in swc's visit order -/
def kids : Node → List Node
  | atom _ => []
  | arr xs => xs
  | obj _ vs => vs
  | other _ _ _ vs => vs
  | lit .. => []
  | ident .. => []
  | pname .. => []
  | bin _ l r _ => [l, r]
  | assign _ l r _ => [l, r]
  | tpl es qs _ => es ++ qs
  | call c as _ => c :: as
  | arg _ e => [e]
  | member o p _ => [o, p]
  | optChain _ b _ => [b]
  | optCall c as _ => c :: as
  | unary _ a _ => [a]
  | arrow ps b _ _ => ps ++ [b]
  | paren e _ => [e]
  | seq es _ => es
  | cond t c a _ => [t, c, a]
  | array es _ => es
  | block ss _ => ss
  | ifStmt t c a _ => [t, c, a]
  | exprStmt e _ => [e]

/-- the same node with its children replaced (`ks` is expected to have the length of `n.kids`) -/
def withKids (n : Node) (ks : List Node) : Node :=
  match n with
  | atom s => atom s
  | arr _ => arr ks
  | obj ns _ => obj ns ks
  | other k sp ns _ => other k sp ns ks
  | lit k v r sp => lit k v r sp
  | ident nm sp => ident nm sp
  | pname nm sp => pname nm sp
  | bin op l r sp => bin op (ks.getD 0 l) (ks.getD 1 r) sp
  | assign op l r sp => assign op (ks.getD 0 l) (ks.getD 1 r) sp
  | tpl es _ sp => tpl (ks.take es.length) (ks.drop es.length) sp
  | call c _ sp => call (ks.getD 0 c) (ks.drop 1) sp
  | arg s e => arg s (ks.getD 0 e)
  | member o p sp => member (ks.getD 0 o) (ks.getD 1 p) sp
  | optChain opt b sp => optChain opt (ks.getD 0 b) sp
  | optCall c _ sp => optCall (ks.getD 0 c) (ks.drop 1) sp
  | unary op a sp => unary op (ks.getD 0 a) sp
  | arrow ps b at' sp => arrow (ks.take ps.length) (ks.getD ps.length b) at' sp
  | paren e sp => paren (ks.getD 0 e) sp
  | seq _ sp => seq ks sp
  | cond t c a sp => cond (ks.getD 0 t) (ks.getD 1 c) (ks.getD 2 a) sp
  | array _ sp => array ks sp
  | block _ sp => block ks sp
  | ifStmt t c a sp => ifStmt (ks.getD 0 t) (ks.getD 1 c) (ks.getD 2 a) sp
  | exprStmt e sp => exprStmt (ks.getD 0 e) sp

end Node

/-! ### JSON → Node (glue; exercised on every record, size-checked by `Node.size` vs `J` type count) -/

partial def jTypeCount : J → Nat
  | .obj kvs => (if kvs.any (·.1 == "type") then 1 else 0) + (kvs.map (fun kv => jTypeCount kv.2)).foldl (· + ·) 0
  | .arr xs => (xs.map jTypeCount).foldl (· + ·) 0
  | _ => 0

def spanOfJ (j : J) : Span :=
  match j.get? "span" with
  | some s => ⟨(s.getD "start").natD, (s.getD "end").natD⟩
  | none => Span.dummy

def spanOptOfJ (j : J) : Option Span :=
  match j with
  | .obj _ => some ⟨(j.getD "start").natD, (j.getD "end").natD⟩
  | _ => none

/-- `__datadog_<prefix>_<n>` with a dummy span is the n-th temporary -/
def parseTemp (pfx : String) (name : String) : Option Nat :=
  if pfx.length > 0 && name.startsWith pfx then
    let rest := (name.drop pfx.length).toString
    if rest.length > 0 && rest.all Char.isDigit then rest.toNat? else none
  else none

def literalKinds : List String :=
  ["StringLiteral", "BooleanLiteral", "NullLiteral", "NumericLiteral", "BigIntLiteral", "RegExpLiteral", "JSXText"]

/-- fields under which a `StringLiteral`/`Identifier` JSON object is a `Str`/`IdentName`, not an `Expr` -/
def nonExprLitField (parentKind field : String) : Bool :=
  field == "key" || field == "source" || field == "imported" || field == "orig" || field == "exported" ||
  (parentKind == "ExportNamespaceSpecifier" && field == "name")

def droppedKeys : List String := ["ctxt"]

partial def fromJ (pfx : String) (parentKind field : String) (j : J) (anySpan : Bool := false) : Node :=
  match j with
  | .null => .atom "null"
  | .bool b => .atom (if b then "true" else "false")
  | .num l => .atom l
  | .str s => .atom (J.escapeString s)
  | .arr xs => .arr (xs.map (fromJ pfx parentKind field · anySpan))
  | .obj kvs =>
    match j.get? "type" with
    | none =>
      -- ExprOrSpread
      if kvs.length == 2 && (j.get? "spread").isSome && (j.get? "expression").isSome then
        .arg (spanOptOfJ (j.getD "spread")) (fromJ pfx "ExprOrSpread" "expression" (j.getD "expression") anySpan)
      else
        let kvs' := kvs.filter (fun kv => !droppedKeys.contains kv.1)
        .obj (kvs'.map (·.1)) (kvs'.map fun kv => fromJ pfx "" kv.1 kv.2 anySpan)
    | some tj =>
      let kind := tj.strD
      let sp := spanOfJ j
      let sub (f : String) : Node := fromJ pfx kind f (j.getD f) anySpan
      let subL (f : String) : List Node := (j.getD f).arrD.map (fromJ pfx kind f · anySpan)
      let generic : Unit → Node := fun _ =>
        let kvs' := kvs.filter (fun kv => kv.1 != "type" && kv.1 != "span" && !droppedKeys.contains kv.1)
        .other kind sp (kvs'.map (·.1)) (kvs'.map fun kv => fromJ pfx kind kv.1 kv.2 anySpan)
      if literalKinds.contains kind then
        if nonExprLitField parentKind field then generic ()
        else if kind == "StringLiteral" then .lit kind (j.getD "value").strD (j.getD "raw").strD sp
        else
          let kvs' := kvs.filter (fun kv => kv.1 != "type" && kv.1 != "span")
          .lit kind (J.render (.obj kvs')) "" sp
      else if kind == "Identifier" then
        let v := (j.getD "value").strD
        if (j.get? "ctxt").isSome then
          match (if sp.isDummy || anySpan then parseTemp pfx v else none) with
          | some n => .ident (.temp n) sp
          | none => .ident (.user v) sp
        else .pname v sp
      else if kind == "BinaryExpression" then .bin (j.getD "operator").strD (sub "left") (sub "right") sp
      else if kind == "AssignmentExpression" then .assign (j.getD "operator").strD (sub "left") (sub "right") sp
      else if kind == "TemplateLiteral" then
        if parentKind == "TaggedTemplateExpression" && field == "template" then generic ()
        else .tpl (subL "expressions") (subL "quasis") sp
      else if kind == "CallExpression" then
        if parentKind == "OptionalChainingExpression" && field == "base" then
          .optCall (sub "callee") (subL "arguments") sp
        else .call (sub "callee") (subL "arguments") sp
      else if kind == "MemberExpression" then .member (sub "object") (sub "property") sp
      else if kind == "OptionalChainingExpression" then
        .optChain ((j.getD "optional").bool?.getD false) (sub "base") sp
      else if kind == "UnaryExpression" then .unary (j.getD "operator").strD (sub "argument") sp
      else if kind == "ArrowFunctionExpression" then
        let attrs := J.render (.obj (kvs.filter fun kv =>
          kv.1 != "type" && kv.1 != "span" && kv.1 != "params" && kv.1 != "body" && !droppedKeys.contains kv.1))
        .arrow (subL "params") (sub "body") attrs sp
      else if kind == "ParenthesisExpression" then .paren (sub "expression") sp
      else if kind == "SequenceExpression" then .seq (subL "expressions") sp
      else if kind == "ConditionalExpression" then .cond (sub "test") (sub "consequent") (sub "alternate") sp
      else if kind == "ArrayExpression" then .array (subL "elements") sp
      else if kind == "BlockStatement" then .block (subL "stmts") sp
      else if kind == "IfStatement" then .ifStmt (sub "test") (sub "consequent") (sub "alternate") sp
      else if kind == "ExpressionStatement" then .exprStmt (sub "expression") sp
      else generic ()

/-- convert a swc `Program` JSON; `none` when the size check fails (a sub-tree was lost by the glue) -/
def programFromJ (pfx : String) (j : J) (anySpan : Bool := false) : Except String Node :=
  let n := fromJ pfx "" "" j anySpan
  if n.size == jTypeCount j then .ok n
  else .error s!"conversion size check failed: tree {n.size} vs json {jTypeCount j}"

def tempPrefix (localVarPrefix : String) : String := "__datadog_" ++ localVarPrefix ++ "_"

end IastModel

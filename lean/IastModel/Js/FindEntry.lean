import IastModel.Spec.Codec
/-
  Model of `SourceMap.findEntry` (js/source-map/node_source_map.js): the binary search over the sorted
  mappings.  `Lemmas/FindEntryGlb.lean` proves that it is the greatest-lower-bound lookup.
-/
namespace IastModel.FindEntry

abbrev Pos := Nat × Nat

/-- `lineNumber < m[0] || (lineNumber === m[0] && columnNumber < m[1])` -/
def posLt (p q : Pos) : Bool := p.1 < q.1 || (p.1 == q.1 && p.2 < q.2)

/-- the `while (count > 1)` loop of `findEntry`, on the positions of the sorted mappings -/
def loop (ms : List Pos) (pos : Pos) : Nat → Nat → Nat → Nat
  | 0, first, _ => first
  | fuel + 1, first, count =>
    if count > 1 then
      let step := count / 2
      let middle := first + step
      if posLt pos (ms.getD middle (0, 0)) then loop ms pos fuel first step
      else loop ms pos fuel middle (count - step)
    else first

/-- `findEntry`: the index of the entry it returns, `none` for `{}` -/
def findEntryIdx (ms : List Pos) (pos : Pos) : Option Nat :=
  let first := loop ms pos ms.length 0 ms.length
  match ms[first]? with
  | none => none
  | some e => if first == 0 && posLt pos e then none else some first

end IastModel.FindEntry

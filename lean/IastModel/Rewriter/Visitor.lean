import IastModel.Rewriter.Transforms
/-
  Model of src/transform/opt_chain_transform.rs, src/visitor/operation_transform_visitor.rs
  (with the `WithCtx::drop` counter reset of visitor_with_context.rs made explicit) and
  src/visitor/block_transform_visitor.rs.

  Recursion is on a fuel argument: two places of the Rust code re-enter the visitor on a node that is
  not a sub-term of the one being visited (the operation visitor walks the *result* of the optional
  chain lowering; the optional-chain visitor re-dispatches on the same expression after setting
  `found`).  Running out of fuel is recorded in the state (`fuelOut`) and every theorem about results
  is stated for runs that did not run out; the driver reports `fuelOut` as a correspondence failure.
-/
namespace IastModel

/-- apply `f` to every immediate child in swc's visit order (the generated
    `visit_mut_children_with` of every node type) -/
def mapKidsM {m : Type → Type} [Monad m] (mapL : (Node → m Node) → List Node → m (List Node))
    (f : Node → m Node) (n : Node) : m Node := do
  let ks ← mapL f n.kids
  pure (n.withKids ks)

/-! ### opt_chain_transform.rs -/

structure OcSt where
  assignments : List Node := []
  newIdent : Option Nat := none
  found : Bool := false
deriving Repr, Inhabited

abbrev OcM := StateT OcSt M

def mapOc {α β : Type} (f : α → OcM β) : List α → OcM (List β)
  | [] => pure []
  | x :: xs => do
    let y ← f x
    let ys ← mapOc f xs
    pure (y :: ys)

/-- `get_call_from_base_call` -/
def getCallFromBaseCall (callee : Node) (args : List Node) (optional : Bool) : OcM (Option Node) := do
  if optional then
    match callee with
    | .member mobj mprop _ =>
      let oc ← get
      let (id, asg1, _) ← (getIdentUsed mobj oc.assignments [] Span.dummy .expr : M _)
      set { oc with assignments := asg1 }
      match id with
      | none => pure none
      | some t0 =>
        let newMember := Node.member (tempIdent t0) mprop Span.dummy
        let (id2, asg2, _) ← (getIdentUsed newMember asg1 [] Span.dummy .expr : M _)
        modify fun oc => { oc with assignments := asg2 }
        match id2 with
        | none => pure none
        | some t1 =>
          modify fun oc => { oc with newIdent := some t1 }
          pure (some (.call (.member (tempIdent t1) (.pname Generated.callMethodName Span.dummy) Span.dummy)
            (.arg none (tempIdent t0) :: args) Span.dummy))
    | _ =>
      let oc ← get
      let (id, asg1, _) ← (getIdentUsed callee oc.assignments [] Span.dummy .expr : M _)
      set { oc with assignments := asg1 }
      match id with
      | none => pure none
      | some t0 =>
        if asg1.isEmpty then pure none
        else
          modify fun oc => { oc with newIdent := some t0 }
          pure (some (.call (tempIdent t0) args Span.dummy))
  else
    pure (some (.call callee args Span.dummy))

/-- `get_member_from_base_member` -/
def getMemberFromBaseMember (obj prop : Node) (msp : Span) (optional : Bool) : OcM (Option Node) := do
  if optional then
    let oc ← get
    let (id, asg1, _) ← (getIdentUsed obj oc.assignments [] Span.dummy .expr : M _)
    set { oc with assignments := asg1 }
    match id with
    | none => pure none
    | some t =>
      modify fun oc => { oc with newIdent := some t }
      pure (some (.member (tempIdent t) prop Span.dummy))
  else
    pure (some (.member obj prop msp))

/-- the `else if !opt_chain_expr.optional` test: a non-optional call whose callee is a chain link that
    reads a configured method by static name -/
def ocTrigger (cfg : Config) (optional : Bool) (base : Node) : Bool :=
  !optional &&
  match base with
  | .optCall (.optChain _ (.member _ (.pname m _) _) _) _ _ => (cfg.get m).isSome
  | _ => false

/-- `visit_mut_chain_spine`: follow the callee of a call link / the object of a member link only -/
def ocSpine (visitExpr : Node → OcM Node) (e : Node) : OcM Node :=
  match e with
  | .optChain o (.optCall callee args csp) sp => do
    let c' ← visitExpr callee
    pure (.optChain o (.optCall c' args csp) sp)
  | .optChain o (.member obj prop msp) sp => do
    let o' ← visitExpr obj
    pure (.optChain o (.member o' prop msp) sp)
  | .call callee args sp =>
    if isNonExprCallee callee then pure e
    else do
      let c' ← visitExpr callee
      pure (.call c' args sp)
  | .member obj prop sp => do
    let o' ← visitExpr obj
    pure (.member o' prop sp)
  | _ => pure e

/-- `OptChainVisitor::visit_mut_expr`: only the links of the chain being lowered are visited -/
def ocVisit (cfg : Config) : Nat → Node → OcM Node
  | 0, n => do
    (outOfFuel : M Unit)
    pure n
  | f + 1, n =>
    match n with
    | .optChain optional base _ => do
      let oc ← get
      if oc.found then
        let r ← match base with
          | .optCall callee args _ => getCallFromBaseCall callee args optional
          | .member obj prop msp => getMemberFromBaseMember obj prop msp optional
          | _ => pure none
        let e1 := r.getD n
        if optional then pure e1
        else ocSpine (ocVisit cfg f) e1
      else if ocTrigger cfg optional base then do
        modify fun oc => { oc with found := true }
        ocVisit cfg f n
      else ocSpine (ocVisit cfg f) n
    | _ => pure n

def nullLit : Node := .lit "NullLiteral" "{}" "" Span.dummy

/-- `OptChainTransform::to_dd_cond_expr`: returns the (possibly mutated in place) expression and, when
    modified, the replacement -/
def toDdCond (cfg : Config) (fuel : Nat) (e : Node) : M (Node × Option Node) := do
  let (e', oc) ← (ocVisit cfg fuel e).run {}
  match oc.newIdent with
  | none => pure (e', none)
  | some t =>
    if oc.assignments.isEmpty then pure (e', none)
    else
      let test := Node.bin "==" (tempIdent t) nullLit Span.dummy
      let cons := Node.ident (.user "undefined") Span.dummy
      let cnd := Node.cond test cons e' Span.dummy
      pure (e', some (.paren (.seq (oc.assignments ++ [cnd]) Span.dummy) Span.dummy))

/-! ### operation_transform_visitor.rs -/

def statusOf (o : Option α) : Status := if o.isSome then .modified else .notModified

def isDelete (op : String) : Bool := op == "delete"

/-- `OperationTransformVisitor` — `root` is `ctx.root`; arms that take `with_child_ctx()` visit their
    children with `root := false` and reset the counter on exit iff they were entered at the root. -/
def visit (cfg : Config) : Nat → Bool → Node → M Node
  | 0, _, n => do
    outOfFuel
    pure n
  | f + 1, root, n =>
    match n with
    | .bin op _ _ _ =>
      if cfg.plusEnabled then do
        let n1 ← mapKidsM mapM' (visit cfg f false) n
        let n2 ← if op == "+" then do
            let res ← toDdBinary cfg n1
            updateStatus (statusOf res) (some Generated.addTag)
            pure (res.getD n1)
          else pure n1
        if root then resetCounter
        pure n2
      else mapKidsM mapM' (visit cfg f root) n
    | .assign op _ _ _ =>
      if cfg.plusEnabled then do
        let n1 ← mapKidsM mapM' (visit cfg f false) n
        let n2 ← if op == "+=" then do
            let res ← toDdAssign cfg n1
            updateStatus (statusOf res) (some Generated.addAssignTag)
            pure (res.getD n1)
          else pure n1
        if root then resetCounter
        pure n2
      else mapKidsM mapM' (visit cfg f root) n
    | .tpl exprs _ _ =>
      if cfg.tplEnabled then
        if !exprs.isEmpty && exprs.all (fun e => !e.isLit) then do
          let n1 ← mapKidsM mapM' (visit cfg f false) n
          let res ← toDdTpl cfg n1
          updateStatus (statusOf res) (some Generated.tplTag)
          if root then resetCounter
          pure (res.getD n1)
        else pure n
      else mapKidsM mapM' (visit cfg f root) n
    | .call .. => do
      let n1 ← mapKidsM mapM' (visit cfg f false) n
      let n2 ← match n1 with
        | .call callee _ _ =>
          if isNonExprCallee callee then pure n1
          else do
            let res ← toDdCall cfg n1
            match res with
            | some (e, tag) => do
              updateStatus .modified (some tag)
              pure e
            | none => pure n1
        | _ => pure n1
      if root then resetCounter
      pure n2
    | .optChain .. => do
      let (e', res) ← toDdCond cfg f n
      let e2 := res.getD e'
      let e3 ← mapKidsM mapM' (visit cfg f false) e2
      if root then resetCounter
      pure e3
    | .unary op _ _ =>
      if isDelete op then pure n else mapKidsM mapM' (visit cfg f root) n
    | .arrow .. => pure ((toDdArrow n).getD n)
    | .ident name sp => do
      registerVariable name sp
      pure n
    | .block .. => pure n
    | _ => mapKidsM mapM' (visit cfg f root) n

/-! ### block_transform_visitor.rs -/

def Name.render (pfx : String) : Name → String
  | .user s => s
  | .temp n => pfx ++ toString n

/-- `variables_contains_possible_duplicate` -/
def variablesContainPossibleDuplicate (vars : List (Name × Span)) (pfx : String) : Bool :=
  vars.any fun v => !v.2.isDummy && (v.1.render pfx).startsWith pfx

/-- `is_directive`: an expression statement that is an un-parenthesised string literal -/
def isDirective : Node → Bool
  | .exprStmt (.lit "StringLiteral" _ _ _) _ => true
  | _ => false

/-- `get_variable_insertion_index`: after the whole directive prologue -/
def variableInsertionIndex (stmts : List Node) : Nat := (stmts.takeWhile isDirective).length

def insertAt (xs : List Node) (i : Nat) (ys : List Node) : List Node := xs.take i ++ ys ++ xs.drop i

def letDecl (idents : List Nat) (sp : Span) : Node :=
  .other "VariableDeclaration" sp ["kind", "declare", "declarations"]
    [.atom "\"let\"", .atom "false",
     .arr (idents.map fun n => .other "VariableDeclarator" sp ["id", "init", "definite"]
       [tempIdent n, .atom "null", .atom "false"])]

/-- `insert_variable_declaration` -/
def insertVariableDeclaration (idents : List Nat) (b : Node) : Node :=
  match b with
  | .block stmts sp =>
    if idents.isEmpty then b
    else .block (insertAt stmts (variableInsertionIndex stmts) [letDecl idents sp]) sp
  | n => n

def cancelVisit (reason : String) : M Unit :=
  modify fun s => { s with status := .cancelled, msg := some reason }

/-- `BlockTransformVisitor` (default traversal + `visit_mut_block_stmt`) -/
def blockVisit (cfg : Config) (opFuel : Nat) : Nat → Node → M Node
  | 0, n => do
    outOfFuel
    pure n
  | f + 1, n =>
    match n with
    | .block .. => do
      let s ← get
      if s.status == .cancelled then pure n
      else do
        -- `DefaultIdentProvider::new`
        modify fun s => { s with counter := 0, idents := [], vars := [] }
        let n1 ← mapKidsM mapM' (visit cfg opFuel true) n
        let s1 ← get
        if variablesContainPossibleDuplicate s1.vars (tempPrefix cfg.localVarPrefix) then do
          cancelVisit "Variable name duplicated"
          pure n1
        else
          let n2 := insertVariableDeclaration s1.idents n1
          mapKidsM mapM' (blockVisit cfg opFuel f) n2
    | _ => mapKidsM mapM' (blockVisit cfg opFuel f) n

/-- insertion of the file prologue in `visit_mut_program` -/
def insertPrologue (prologue : List Node) (p : Node) : Node :=
  match p with
  | .other k sp ("body" :: ns) (.arr body :: vs) =>
    .other k sp ("body" :: ns) (.arr (insertAt body (variableInsertionIndex body) prologue) :: vs)
  | n => n

mutual
/-- `ReservedPrefixFinder`: some `Ident` of the program renders with the reserved prefix -/
def hasReserved (pfx : String) : Node → Bool
  | .atom _ => false
  | .arr xs => hasReservedL pfx xs
  | .obj _ vs => hasReservedL pfx vs
  | .other _ _ _ vs => hasReservedL pfx vs
  | .lit .. => false
  | .ident n _ => (n.render pfx).startsWith pfx
  | .pname .. => false
  | .bin _ l r _ => hasReserved pfx l || hasReserved pfx r
  | .assign _ l r _ => hasReserved pfx l || hasReserved pfx r
  | .tpl es qs _ => hasReservedL pfx es || hasReservedL pfx qs
  | .call c as _ => hasReserved pfx c || hasReservedL pfx as
  | .arg _ e => hasReserved pfx e
  | .member o p _ => hasReserved pfx o || hasReserved pfx p
  | .optChain _ b _ => hasReserved pfx b
  | .optCall c as _ => hasReserved pfx c || hasReservedL pfx as
  | .unary _ a _ => hasReserved pfx a
  | .arrow ps b _ _ => hasReservedL pfx ps || hasReserved pfx b
  | .paren e _ => hasReserved pfx e
  | .seq es _ => hasReservedL pfx es
  | .cond t c a _ => hasReserved pfx t || hasReserved pfx c || hasReserved pfx a
  | .array es _ => hasReservedL pfx es
  | .block ss _ => hasReservedL pfx ss
  | .ifStmt t c a _ => hasReserved pfx t || hasReserved pfx c || hasReserved pfx a
  | .exprStmt e _ => hasReserved pfx e
def hasReservedL (pfx : String) : List Node → Bool
  | [] => false
  | x :: xs => hasReserved pfx x || hasReservedL pfx xs
end

/-- `BlockTransformVisitor::visit_mut_program` -/
def programVisit (cfg : Config) (prologue : List Node) (fuel : Nat) (p : Node) : M Node := do
  if hasReserved (tempPrefix cfg.localVarPrefix) p then
    cancelVisit "Variable name duplicated"
    return p
  let p1 ← mapKidsM mapM' (blockVisit cfg fuel fuel) p
  let s ← get
  if s.status == .modified then pure (insertPrologue prologue p1) else pure p1

end IastModel

import IastModel.Rewriter.State
/-
  Model of src/transform/{operand_handler,binary_add_transform,assign_add_transform,
  template_transform,arrow_transform,call_expr_transform,function_prototype_transform}.rs.
  Same function names (camelCased), same order of allocation and of pushes.
-/
namespace IastModel

/-! ### operand_handler.rs -/

/-- `get_ident_mode` -/
def getIdentMode (operand : Node) : IdentMode :=
  if operand.isIdent || operand.isLit then .keep else .replace

/-- `replace_default` -/
def replaceDefault (e : Node) (asg args : List Node) (sp : Span) (kind : IdentKind) :
    M (Node × List Node × List Node) := do
  let (id, asg', args') ← getIdentUsed e asg args sp kind
  pure ((match id with | some n => tempIdent n | none => e), asg', args')

/-- `is_literal_sum` -/
def isLiteralSum : Node → Bool
  | .lit .. => true
  | .bin op l r _ => op == "+" && isLiteralSum l && isLiteralSum r
  | _ => false

/-- `Expr::undefined(DUMMY_SP)`: `void 0` -/
def voidZero : Node :=
  .unary "void" (.lit "NumericLiteral" "{\"value\":0.0,\"raw\":null}" "" Span.dummy) Span.dummy

/-- `replace_expressions_in_expr` with `ExpandArrays::No` -/
def replaceExprNoExpand (e : Node) (mode : IdentMode) (asg args : List Node) (sp : Span)
    (kind : IdentKind) : M (Node × List Node × List Node) :=
  match e with
  | .lit .. => pure (e, asg, args ++ [exprOrSpread e kind])
  | .ident .. =>
    match mode with
    | .replace => replaceDefault e asg args sp kind
    | .keep => pure (e, asg, args ++ [exprOrSpread e kind])
  | .bin op _ _ _ =>
    -- replace_binary: a sum of literals stays in place and is passed on; any other sum stays in place
    if op != "+" then replaceDefault e asg args sp kind
    else if isLiteralSum e then pure (e, asg, args ++ [exprOrSpread e kind])
    else pure (e, asg, args)
  | _ => replaceDefault e asg args sp kind

/-- `replace_expressions_in_expr_or_spread` with `ExpandArrays::No` -/
def replaceArgNoExpand (a : Node) (mode : IdentMode) (asg args : List Node) (sp : Span) :
    M (Node × List Node × List Node) :=
  match a with
  | .arg spread e => do
    let kind := if spread.isSome then IdentKind.spread else IdentKind.expr
    let (e', asg', args') ← replaceExprNoExpand e mode asg args sp kind
    pure (.arg spread e', asg', args')
  | other => pure (other, asg, args)

/-- one element of an array literal handed to `apply`: a hole is passed on as `undefined` -/
def replaceElem (a : Node) (mode : IdentMode) (asg args : List Node) (sp : Span) :
    M (Node × List Node × List Node) :=
  match a with
  | .arg .. => replaceArgNoExpand a mode asg args sp
  | hole => pure (hole, asg, args ++ [.arg none voidZero])

/-- the `for_each` over array elements in the `ExpandArrays::Yes` arm (holes are skipped) -/
def replaceElems (mode : IdentMode) (sp : Span) :
    List Node → List Node → List Node → M (List Node × List Node × List Node)
  | [], asg, args => pure ([], asg, args)
  | x :: xs, asg, args => do
    let (x', asg1, args1) ← replaceElem x mode asg args sp
    let (xs', asg2, args2) ← replaceElems mode sp xs asg1 args1
    pure (x' :: xs', asg2, args2)

/-- `replace_expressions_in_expr` -/
def replaceExpr (e : Node) (mode : IdentMode) (asg args : List Node) (sp : Span) (kind : IdentKind)
    (expand : Bool) : M (Node × List Node × List Node) :=
  match e, expand with
  | .array elems asp, true => do
    let (elems', asg', args') ← replaceElems mode sp elems asg args
    pure (.array elems' asp, asg', args')
  | _, _ => replaceExprNoExpand e mode asg args sp kind

/-- `replace_expressions_in_expr_or_spread` -/
def replaceArg (a : Node) (mode : IdentMode) (asg args : List Node) (sp : Span) (expand : Bool) :
    M (Node × List Node × List Node) :=
  match a with
  | .arg spread e => do
    let kind := if spread.isSome then IdentKind.spread else IdentKind.expr
    let (e', asg', args') ← replaceExpr e mode asg args sp kind expand
    pure (.arg spread e', asg', args')
  | other => pure (other, asg, args)

def replaceArgs (mode : IdentMode) (sp : Span) (expand : Bool) :
    List Node → List Node → List Node → M (List Node × List Node × List Node)
  | [], asg, args => pure ([], asg, args)
  | x :: xs, asg, args => do
    let (x', asg1, args1) ← replaceArg x mode asg args sp expand
    let (xs', asg2, args2) ← replaceArgs mode sp expand xs asg1 args1
    pure (x' :: xs', asg2, args2)

/-! ### binary_add_transform.rs -/

def argExpr : Node → Node
  | .arg _ e => e
  | n => n

/-- `must_replace_binary_expression` -/
def mustReplaceBinary (args : List Node) : Bool := args.any fun a => !isLiteralSum (argExpr a)

/-- `to_dd_binary_expr` (on an `Expr::Bin`; anything else is not modified) -/
def toDdBinary (cfg : Config) (e : Node) : M (Option Node) :=
  match e with
  | .bin op l r sp => do
    let leftMode := getIdentMode r
    let (l', asg1, args1) ← replaceExpr l leftMode [] [] sp .expr false
    let rightMode := getIdentMode l'
    let (r', asg2, args2) ← replaceExpr r rightMode asg1 args1 sp .expr false
    if mustReplaceBinary args2 then
      pure (some (ddParen (.bin op l' r' sp) args2 asg2 cfg.plusName sp))
    else pure none
  | _ => pure none

/-! ### assign_add_transform.rs -/

def isPatternTarget : Node → Bool
  | .other k _ _ _ => k == "ArrayPattern" || k == "ObjectPattern" || k == "Invalid"
  | _ => false

/-- `is_simple_target_part` -/
def isSimpleTargetPart : Node → Bool
  | .ident .. => true
  | .lit .. => true
  | .other "ThisExpression" _ _ [] => true   -- `ThisExpr` has no children
  | _ => false

def seqOperand (x : Node) : Node :=
  match x with
  | .seq _ _ => Node.paren x x.span
  | _ => x

/-- `hoist_target_part`: `(t = e)` for the target, `t` for reading back -/
def hoistTargetPart (e : Node) (sp : Span) : M (Node × Node) := do
  -- a sequence used as a key keeps its own grouping when it is assigned
  let (id, asg) ← getTemporalIdent (seqOperand e) [] sp .expr
  match id, asg.getLast? with
  | some n, some a => pure (.paren a sp, tempIdent n)
  | _, _ => pure (seqOperand e, seqOperand e)

/-- `split_computed_key` -/
def splitComputedKey (csp : Span) (e : Node) (sp : Span) : M (Node × Node) := do
  let (tk, ok) ← hoistTargetPart e sp
  pure (Node.other "Computed" csp ["expression"] [tk], Node.other "Computed" csp ["expression"] [ok])

/-- the guard of the `Paren` arm of `split_simple_target` -/
def isSplittableInner : Node → Bool
  | .member .. => true
  | .paren .. => true
  | .other k _ _ _ => k == "SuperPropExpression"
  | _ => false

/-- `key_is_simple` -/
def keyIsSimple (prop : Node) : Bool :=
  match prop with
  | .other "Computed" _ ["expression"] [e] => isSimpleTargetPart e
  | _ => true

/-- the property of the target and of the read-back: a non-trivial computed key goes through a temporary -/
def splitProp (prop : Node) (sp : Span) : M (Node × Node) :=
  match prop with
  | .other "Computed" csp ["expression"] [e] =>
    if !isSimpleTargetPart e then splitComputedKey csp e sp
    else pure (prop, prop)
  | _ => pure (prop, prop)

/-- `split_simple_target` (`split_member_target` wraps its first component in `AssignTarget::Simple`) -/
def splitMemberTarget (left : Node) (sp : Span) : M (Node × Node) :=
  match left with
  | .member obj prop msp =>
    if !isSimpleTargetPart obj || !keyIsSimple prop then do
      -- an identifier is only read again as it is when nothing runs between the two reads
      let objRepeatable := isSimpleTargetPart obj && (keyIsSimple prop || !obj.isIdent)
      let (tobj, oobj) ← if objRepeatable then pure (obj, obj) else hoistTargetPart obj sp
      let (tprop, oprop) ← splitProp prop sp
      pure (.member tobj tprop msp, .member oobj oprop msp)
    else pure (left, left)
  | .other "SuperPropExpression" ssp ["obj", "property"] [sup, prop] =>
    if !keyIsSimple prop then do
      let (tk, ok) ← splitProp prop sp
      pure (.other "SuperPropExpression" ssp ["obj", "property"] [sup, tk],
            .other "SuperPropExpression" ssp ["obj", "property"] [sup, ok])
    else pure (left, left)
  | .paren inner psp =>
    if isSplittableInner inner then do
      let (t, o) ← splitMemberTarget inner sp
      pure (.paren t psp, o)
    else pure (left, left)
  | _ => pure (left, left)

/-- `to_dd_assign_expr`.  The `AssignTarget::Pat` arm re-visits the children in the Rust code; a
    compound assignment to a pattern is a syntax error, so that arm is unreachable from the parser and
    is modelled as "not modified". -/
def assignRhs (r : Node) : Node :=
  match r with
  | .bin "+" _ _ _ => Node.paren r r.span
  | _ => r

def toDdAssign (cfg : Config) (e : Node) : M (Option Node) :=
  match e with
  | .assign _ left r sp =>
    if isPatternTarget left then pure none
    else do
      -- a sum on the right keeps its own grouping
      let right := assignRhs r
      let (target, operand) ← splitMemberTarget left sp
      let res ← toDdBinary cfg (.bin "+" operand right sp)
      match res with
      | some e' => pure (some (.assign "=" target e' sp))
      | none => pure none
  | _ => pure none

/-! ### template_transform.rs -/

def tplOperand (x : Node) : Node :=
  match x with
  | .seq _ _ => Node.paren x x.span
  | _ => x

def replaceTplExprs : List Node → List Node → List Node → M (List Node × List Node × List Node)
  | [], asg, args => pure ([], asg, args)
  | x :: xs, asg, args => do
    -- a sequence substitution stays parenthesised
    let x0 := tplOperand x
    let (x', asg1, args1) ← replaceExpr x0 .replace asg args x.span .expr false
    let (xs', asg2, args2) ← replaceTplExprs xs asg1 args1
    pure (x' :: xs', asg2, args2)

/-- `to_dd_tpl_expr` -/
def toDdTpl (cfg : Config) (e : Node) : M (Option Node) :=
  match e with
  | .tpl exprs quasis sp => do
    let (exprs', asg, args) ← replaceTplExprs exprs [] []
    pure (some (ddParen (.tpl exprs' quasis sp) args asg cfg.tplName sp))
  | _ => pure none

/-! ### arrow_transform.rs -/

def returnStmt (e : Node) : Node := .other "ReturnStatement" Span.dummy ["argument"] [e]

/-- `to_dd_arrow_expr`: an expression body becomes `{ return e }` -/
def toDdArrow (e : Node) : Option Node :=
  match e with
  | .arrow params body attrs sp =>
    match body with
    | .block .. => none
    | _ => some (.arrow params (.block [returnStmt body] Span.dummy) attrs sp)
  | _ => none

/-! ### call_expr_transform.rs / function_prototype_transform.rs -/

/-- `replace_call_callee_and_args` -/
def replaceCallCalleeAndArgs (callee : Node) (cargs : List Node) (csp : Span) (identCallee : Option Node)
    (asg args : List Node) (callOrApply : Option String) : M (Node × List Node × List Node) := do
  let propName := callOrApply.getD Generated.callMethodName
  let callee' := match identCallee with
    | some i => Node.member i (.pname propName csp) csp
    | none => callee
  let expand := propName == Generated.applyMethodName
  let (cargs', asg', args') ← replaceArgs .replace csp expand cargs asg args
  pure (.call callee' cargs' csp, asg', args')

def insertThis (c : Node) (this : Node) : Node :=
  match c with
  | .call callee args sp => .call callee (.arg none this :: args) sp
  | n => n

/-- `replace_call_expr_if_csi_method_with_member` -/
def replaceCallWithMember (cfg : Config) (expr : Node) (method : String) (msp : Span)
    (callee : Node) (cargs : List Node) (csp : Span)
    (memberOpt : Option Node) (callOrApply : Option String) : M (Option (Node × String)) :=
  match cfg.get method with
  | none => pure none
  | some csi => do
    let (identRepl, asg0) ← getTemporalIdent expr [] csp .expr
    let identReplacement := match identRepl with
      | some n => tempIdent n
      | none => expr
    let memberExpr := match memberOpt with
      | some m => m
      | none => Node.member identReplacement (.pname method msp) csp
    let (identCallee, asg1, args1) ← getIdentUsed memberExpr asg0 [] csp .expr
    let args2 := args1 ++ [.arg none identReplacement]
    let calleeExpr := match identCallee with
      | some n => tempIdent n
      | none => expr
    let (callRepl, asg3, args3) ← replaceCallCalleeAndArgs callee cargs csp (some calleeExpr) asg1 args2 callOrApply
    pure (some (ddParen (insertThis callRepl identReplacement) args3 asg3 csi.dst csp, method))

/-- `replace_call_spread_if_csi_method_with_member` -/
def replaceCallSpreadWithMember (cfg : Config) (method : String)
    (callee : Node) (cargs : List Node) (csp : Span) (memberExpr : Node) (callOrApply : String) :
    M (Option (Node × String)) :=
  match cfg.get method with
  | none => pure none
  | some csi => do
    let (identCallee, asg1, args1) ← getIdentUsed memberExpr [] [] csp .expr
    match identCallee with
    | none => pure none
    | some n => do
      let (callRepl, asg2, args2) ← replaceCallCalleeAndArgs callee cargs csp (some (tempIdent n)) asg1 args1 (some callOrApply)
      pure (some (ddParen callRepl args2 asg2 csi.dst csp, method))

/-- `replace_call_expr_if_csi_method_without_callee` -/
def replaceCallWithoutCallee (cfg : Config) (name : Name) (isp : Span) (callee : Node) (cargs : List Node)
    (csp : Span) : M (Option (Node × String)) :=
  match name with
  | .temp _ => pure none
  | .user method =>
    match cfg.get method with
    | none => pure none
    | some csi =>
      if csi.allowedWithoutCallee then do
        let args0 := [Node.arg none (.ident name isp), .arg none (.ident (.user "undefined") csp)]
        let (callRepl, asg, args) ← replaceCallCalleeAndArgs callee cargs csp none [] args0 none
        pure (some (ddParen callRepl args asg csi.dst csp, method))
      else pure none

/-- `is_call_or_apply` -/
def isCallOrApply (m : String) : Bool := m == Generated.callMethodName || m == Generated.applyMethodName

/-- `member_prop_is_prototype` -/
def memberPropIsPrototype (member : Node) : Bool :=
  match member with
  | .member _ (.pname p _) _ => p == Generated.prototypeName
  | _ => false

/-- `is_undefined_or_null` -/
def isUndefinedOrNull (e : Node) : Bool :=
  match e with
  | .ident (.user s) _ => s == "undefined" || s == "null"
  | _ => false

/-- `all_args_are_literal` -/
def allArgsAreLiteral (args : List Node) : Bool :=
  args.all fun a => (argExpr a).isLit || isUndefinedOrNull (argExpr a)

def argIsSpread : Node → Bool
  | .arg (some _) _ => true
  | _ => false

/-- `invalid_args` -/
def invalidArgs (name : String) (cargs : List Node) : Bool :=
  if name != Generated.applyMethodName then false
  else
    match cargs with
    | this :: argsArray :: _ =>
      match argExpr argsArray with
      | .array elems _ =>
        (argExpr this).isLit && (elems.drop 1).all fun el =>
          match el with
          | .arg _ e => e.isLit || isUndefinedOrNull e
          | _ => false
      | _ => if argIsSpread argsArray then false else true
    | _ => true

/-- `get_prototype_member_path`: a chain of plain-name member accesses rooted at an identifier -/
def isStaticPath : Node → Bool
  | .member obj (.pname _ _) _ =>
    match obj with
    | .ident .. => true
    | .member .. => isStaticPath obj
    | _ => false
  | _ => false

/-- `path_parts[0]` when `get_prototype_member_path` succeeds: the method name -/
def prototypeMethodIdent (member : Node) : Option (String × Span) :=
  if isStaticPath member then
    match member with
    | .member _ (.pname m msp) _ => some (m, msp)
    | _ => none
  else none

/-- `get_expression_parts_from_call_or_apply` followed by
    `replace_call_expr_or_spread_if_csi_method_with_member` -/
def replacePrototypeCallOrApply (cfg : Config) (cargs : List Node) (csp : Span) (callee : Node)
    (member : Node) (callOrApply : String) : M (Option (Node × String)) :=
  if !isCallOrApply callOrApply then pure none
  else
    match prototypeMethodIdent member with
    | none => pure none
    | some (method, msp) =>
      match cargs with
      | [] => pure none
      | this :: rest =>
        if argIsSpread this then
          replaceCallSpreadWithMember cfg method callee cargs csp member callOrApply
        else if invalidArgs callOrApply cargs then pure none
        else
          let thisExpr := argExpr this
          if thisExpr.isLit && (!cfg.allowsLiteralCallers method || allArgsAreLiteral rest) then pure none
          else
            let newCallee := Node.member thisExpr (.pname method msp) csp
            replaceCallWithMember cfg thisExpr method msp newCallee rest csp (some member) (some callOrApply)

def isNonExprCallee : Node → Bool
  | .other k _ _ _ => k == "Super" || k == "Import"
  | _ => false

/-- `CallExprTransform::to_dd_call_expr` -/
def toDdCall (cfg : Config) (e : Node) : M (Option (Node × String)) :=
  match e with
  | .call callee cargs csp =>
    match callee with
    | .member obj (.pname m msp) _ =>
      match obj with
      | .lit .. =>
        if cfg.allowsLiteralCallers m then replaceCallWithMember cfg obj m msp callee cargs csp none none
        else pure none
      | .ident .. => replaceCallWithMember cfg obj m msp callee cargs csp none none
      | .call .. => replaceCallWithMember cfg obj m msp callee cargs csp none none
      | .paren .. => replaceCallWithMember cfg obj m msp callee cargs csp none none
      | .array .. => replaceCallWithMember cfg obj m msp callee cargs csp none none
      | .member .. =>
        if isCallOrApply m then replacePrototypeCallOrApply cfg cargs csp callee obj m
        else if !memberPropIsPrototype obj then replaceCallWithMember cfg obj m msp callee cargs csp none none
        else pure none
      | _ => pure none
    | .ident name isp => replaceCallWithoutCallee cfg name isp callee cargs csp
    | _ => pure none
  | _ => pure none

end IastModel

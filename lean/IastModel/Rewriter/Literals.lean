import IastModel.Lemmas.Tree
import IastModel.Config
/-
  Model of src/visitor/literal_visitor.rs: `LiteralVisitor` (a swc `Visit` with four overrides) and
  `get_result` (span → 1-based line / character column).
-/
namespace IastModel

/-- value ↦ occurrences (span, ident); an occurrence is identified by its span (`SpanAndIdent::eq`) -/
abbrev LitMap := List (String × List (Span × Option String))

def litLengthOk (value : String) : Bool :=
  value.utf8ByteSize > Generated.minLiteralLength && value.utf8ByteSize ≤ Generated.maxLiteralLength

/-- `add_literal` -/
def addLiteral (m : LitMap) (value : String) (sp : Span) (ident : Option String) : LitMap :=
  if litLengthOk value then
    match m.find? (·.1 == value) with
    | none => m ++ [(value, [(sp, ident)])]
    | some _ =>
      m.map fun e =>
        if e.1 == value then
          (if e.2.any (·.1 == sp) then e else (e.1, e.2 ++ [(sp, ident)]))
        else e
  else m

def strLit? : Node → Option (String × Span)
  | .lit "StringLiteral" v _ sp => some (v, sp)
  | _ => none

def firstArgIsPlainLiteral (args : List Node) : Bool :=
  match args with
  | .arg none e :: _ => e.isLit
  | _ => false

/-- the early `return`s of `visit_expr` -/
def literalsSkipped (n : Node) : Bool :=
  match n with
  | .call (.ident (.user "require") _) args _ => firstArgIsPlainLiteral args
  | .other "NewExpression" _ _ _ =>
    match n.field? "callee", n.field? "arguments" with
    | some (.ident (.user "RegExp") _), some (.arr args) => firstArgIsPlainLiteral args
    | _, _ => false
  | _ => false

def isDeclarator : Node → Bool
  | .other "VariableDeclarator" .. => true
  | _ => false

def bindingName? : Node → Option String
  | .ident (.user s) _ => some s
  | _ => none

/-- `visit_var_declarators`, the part before `visit_children_with` -/
def addDeclarators (m : LitMap) (decls : List Node) : LitMap :=
  decls.foldl (fun m d =>
    match d.field? "init" with
    | some init =>
      match strLit? init with
      | some (v, sp) => addLiteral m v sp ((d.field? "id").bind bindingName?)
      | none => m
    | none => m) m

/-- `visit_object_lit`, the part before `visit_children_with` -/
def addObjectProps (m : LitMap) (props : List Node) : LitMap :=
  props.foldl (fun m p =>
    match p with
    | .other "KeyValueProperty" _ ["key", "value"] [key, value] =>
      match strLit? value with
      | some (v, sp) => addLiteral m v sp (match key with | .pname k _ => some k | _ => none)
      | none => m
    | _ => m) m

/-- what the overrides add for the node itself -/
def ownLiterals (m : LitMap) (n : Node) : LitMap :=
  match n with
  | .lit "StringLiteral" v _ sp => addLiteral m v sp none
  | .other "ObjectExpression" _ ["properties"] [.arr props] => addObjectProps m props
  | .other _ _ _ vals =>
    vals.foldl (fun m v =>
      match v with
      | .arr ds => if !ds.isEmpty && ds.all isDeclarator then addDeclarators m ds else m
      | _ => m) m
  | _ => m

/-- `program.visit_with(&mut literal_visitor)` -/
def collectLits (n : Node) (m : LitMap) : LitMap :=
  if literalsSkipped n then m
  else n.kids.attach.foldl (fun m x => collectLits x.1 m) (ownLiterals m n)
termination_by sizeOf n
decreasing_by exact Node.sizeOf_lt_of_mem_kids x.2

/-! ### get_result: positions -/

def stripBom (b : ByteArray) : ByteArray :=
  if b.size ≥ 3 && b[0]! == 0xEF && b[1]! == 0xBB && b[2]! == 0xBF then b.extract 3 b.size else b

/-- 1-based line and 1-based character column of byte offset `off` (0-based) in `src` -/
def lineCol (src : ByteArray) (off : Nat) : Nat × Nat := Id.run do
  let mut line := 1
  let mut col := 0
  for i in [0:off] do
    if i < src.size then
      let c := src[i]!
      if c == 10 then
        line := line + 1
        col := 0
      else if (c &&& 0xC0) != 0x80 then
        col := col + 1
  return (line, col + 1)

structure LitLocation where
  ident : Option String
  line : Nat
  column : Nat
deriving Repr, BEq, Inhabited

/-- `get_result` (the `file` field aside); swc byte positions start at 1 -/
def literalsResult (src : ByteArray) (m : LitMap) : List (String × List LitLocation) :=
  m.map fun e => (e.1, e.2.map fun o =>
    let (l, c) := lineCol src (o.1.lo - 1)
    { ident := o.2, line := l, column := c })

end IastModel

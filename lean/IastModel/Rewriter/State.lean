import IastModel.Syntax
import IastModel.Config
/-
  Model of src/visitor/ident_provider.rs (DefaultIdentProvider + the trait's default methods),
  src/transform/transform_status.rs, the telemetry side of src/telemetry.rs and
  src/visitor/visitor_util.rs.  Mutation through `&mut` becomes state passing in `M`.
-/
namespace IastModel

inductive Status where
  | notModified | modified | cancelled
deriving DecidableEq, Repr, Inhabited

def Status.name : Status → String
  | .notModified => "NotModified" | .modified => "Modified" | .cancelled => "Cancelled"

inductive IdentKind where
  | expr | spread
deriving DecidableEq, Repr, Inhabited

inductive IdentMode where
  | replace | keep
deriving DecidableEq, Repr, Inhabited

/-- per-block `DefaultIdentProvider` (fields `ident_counter`, `idents`, `variable_decl`) plus the
    per-call `TransformStatus` (status, msg, telemetry as the list of `inc` calls) -/
structure St where
  counter : Nat := 0
  idents : List Nat := []
  vars : List (Name × Span) := []
  status : Status := .notModified
  msg : Option String := none
  incs : List (Option String) := []
  fuelOut : Bool := false
deriving Repr, Inhabited

abbrev M := StateM St

def mapM' {α β : Type} (f : α → M β) : List α → M (List β)
  | [] => pure []
  | x :: xs => do
    let y ← f x
    let ys ← mapM' f xs
    pure (y :: ys)

def outOfFuel : M Unit := modify fun s => { s with fuelOut := true }

/-- `next_ident` -/
def nextIdent : M Nat := modifyGet fun s => (s.counter, { s with counter := s.counter + 1 })

/-- `register_ident`: push unless already contained -/
def registerIdent (n : Nat) : M Unit :=
  modify fun s => if s.idents.contains n then s else { s with idents := s.idents ++ [n] }

/-- `reset_counter` -/
def resetCounter : M Unit := modify fun s => { s with counter := 0 }

/-- `register_variable` (a `HashSet<Ident>`; only membership is ever used) -/
def registerVariable (n : Name) (sp : Span) : M Unit :=
  modify fun s => { s with vars := (n, sp) :: s.vars }

/-- `OperationTransformVisitor::update_status` -/
def updateStatus (status : Status) (tag : Option String) : M Unit :=
  modify fun s =>
    if s.status == .cancelled then s
    else
      let s1 := if status == .modified then { s with incs := s.incs ++ [tag] } else s
      if status != .notModified then { s1 with status := status } else s1

def tempIdent (n : Nat) : Node := .ident (.temp n) Span.dummy

/-- `create_assign_right_operand_expression` -/
def assignRight (e : Node) (kind : IdentKind) : Node :=
  match kind with
  | .spread => .array [.arg (some Span.dummy) e] Span.dummy
  | .expr => e

/-- `get_expr_or_spread` -/
def exprOrSpread (e : Node) (kind : IdentKind) : Node :=
  match kind with
  | .spread => .arg (some Span.dummy) e
  | .expr => .arg none e

/-- `get_temporal_ident_used_in_assignation` -/
def getTemporalIdent (operand : Node) (asg : List Node) (sp : Span) (kind : IdentKind) :
    M (Option Nat × List Node) := do
  if operand.isLit then
    pure (none, asg)
  else
    let n ← nextIdent
    registerIdent n
    pure (some n, asg ++ [.assign "=" (tempIdent n) (assignRight operand kind) sp])

/-- `get_ident_used_in_assignation` -/
def getIdentUsed (operand : Node) (asg args : List Node) (sp : Span) (kind : IdentKind) :
    M (Option Nat × List Node × List Node) := do
  let (id, asg') ← getTemporalIdent operand asg sp kind
  let idExpr := match id with
    | some n => tempIdent n
    | none => operand
  pure (id, asg', args ++ [exprOrSpread idExpr kind])

/-! ### src/visitor/visitor_util.rs -/

/-- `dd_global_method_invocation` -/
def ddCallee (method : String) (sp : Span) : Node :=
  .member (.ident (.user Generated.ddGlobalNamespace) sp) (.pname method sp) sp

/-- `get_dd_call_expr` -/
def ddCall (e : Node) (args : List Node) (method : String) (sp : Span) : Node :=
  .call (ddCallee method sp) (.arg none e :: args) sp

/-- `get_dd_paren_expr` -/
def ddParen (e : Node) (args asg : List Node) (method : String) (sp : Span) : Node :=
  let c := ddCall e args method sp
  if asg.isEmpty then c else .paren (.seq (asg ++ [c]) sp) sp

end IastModel

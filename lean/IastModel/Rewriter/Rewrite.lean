import IastModel.Rewriter.Visitor
/-
  Model of the parts of src/rewriter.rs and src/lib_wasm.rs around the visitors:
  `generate_prefix_stmts`, `transform_js` (status → result shape), `get_metrics`, telemetry read-out.
-/
namespace IastModel

/-! ### generate_prefix_stmts (after the template has been parsed; every span is erased) -/

def pd : Span := Span.dummy
def puid (s : String) : Node := .ident (.user s) pd

/-- the parsed prologue template with `__CSI_METHODS__` replaced by `dst: noop` for every configured
    method, in order.  Precondition for agreement with the code: every `dst` is an identifier name
    (the Rust code splices the text and re-parses it; anything else parses differently or not at all). -/
def prologue (dsts : List String) : List Node :=
  let noopDecl : Node := .other "VariableDeclaration" pd ["kind", "declare", "declarations"]
    [.atom "\"const\"", .atom "false",
     .arr [.other "VariableDeclarator" pd ["id", "init", "definite"]
       [puid "noop",
        .arrow [puid "res"] (puid "res") "{\"async\":false,\"generator\":false,\"typeParameters\":null,\"returnType\":null}" pd,
        .atom "false"]]]
  let table : Node := .other "ObjectExpression" pd ["properties"]
    [.arr (dsts.map fun k => .other "KeyValueProperty" pd ["key", "value"] [.pname k pd, puid "noop"])]
  let gd : Node := .member (puid "globals") (.pname Generated.ddGlobalNamespace pd) pd
  let assignStmt : Node := .exprStmt (.assign "=" gd (.bin "||" gd table pd) pd) pd
  let fn : Node := .other "FunctionExpression" pd
    ["identifier", "params", "decorators", "body", "generator", "async", "typeParameters", "returnType"]
    [.atom "null", .arr [.other "Parameter" pd ["decorators", "pat"] [.arr [], puid "globals"]], .arr [],
     .block [noopDecl, assignStmt] pd, .atom "false", .atom "false", .atom "null", .atom "null"]
  let thisArg : Node := .call (.paren (.seq [.lit "NumericLiteral" "{\"value\":1.0,\"raw\":\"1\"}" "" pd, puid "eval"] pd) pd)
    [.arg none (.lit "StringLiteral" "this" "'this'" pd)] pd
  [ .other "EmptyStatement" pd [] [],
    .ifStmt (.bin "===" (.unary "typeof" (puid Generated.ddGlobalNamespace) pd) (.lit "StringLiteral" "undefined" "'undefined'" pd) pd)
      (.exprStmt (.paren (.call fn [.arg none thisArg] pd) pd) pd)
      (.atom "null") pd ]

/-! ### transform_js -/

structure ModelResult where
  status : Status
  msg : Option String
  out : Node
  incs : List (Option String)
  fuelOut : Bool
deriving Inhabited

def defaultFuel (p : Node) : Nat := 4 * p.size + 64

/-- the visitor part of `transform_js` -/
def transformProgram (cfg : Config) (fuel : Nat) (p : Node) : ModelResult :=
  let (out, s) := (programVisit cfg (prologue cfg.dsts) fuel p).run {}
  { status := s.status, msg := s.msg, out := out, incs := s.incs, fuelOut := s.fuelOut }

/-! ### telemetry read-out and get_metrics (src/telemetry.rs, src/lib_wasm.rs) -/

structure Metrics where
  status : String
  instrumentedPropagation : Nat
  file : String
  propagationDebug : Option (List (String × Nat))
deriving Repr, Inhabited

def countTag (tags : List String) (t : String) : Nat := (tags.filter (· == t)).length

/-- `DebugTelemetry::propagation_debug` as an association list without duplicates -/
def tagCounts (incs : List (Option String)) : List (String × Nat) :=
  let tags := incs.filterMap id
  tags.eraseDups.map fun t => (t, countTag tags t)

def instrumentedPropagation (v : Verbosity) (incs : List (Option String)) : Nat :=
  match v with
  | .off => 0
  | _ => incs.length

def propagationDebug (v : Verbosity) (incs : List (Option String)) : Option (List (String × Nat)) :=
  match v with
  | .debug => some (tagCounts incs)
  | _ => none

def getMetrics (cfg : Config) (r : ModelResult) (file : String) : Metrics :=
  { status := r.status.name.toLower
    instrumentedPropagation := instrumentedPropagation cfg.verbosity r.incs
    file := file
    propagationDebug := propagationDebug cfg.verbosity r.incs }

end IastModel

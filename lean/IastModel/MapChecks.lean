import IastModel.Spec.Codec
import IastModel.Spec.Directives
import IastModel.Show
import IastModel.Json
/-
  Run-time side of C09 / C10: read the maps the implementation emitted with the verified decoders of
  `Spec/Codec.lean`, and apply the specifications (sources, bounds, identifier exactness, span
  discipline, composition) to them.  Glue code (Base64 text, JSON fields, UTF-16 columns) is not proved.
-/
namespace IastModel
open Codec

/-! ### Base64 (RFC 4648, with padding) -/

def b64Val (c : UInt8) : Option Nat :=
  if 65 ≤ c && c ≤ 90 then some (c.toNat - 65)
  else if 97 ≤ c && c ≤ 122 then some (c.toNat - 97 + 26)
  else if 48 ≤ c && c ≤ 57 then some (c.toNat - 48 + 52)
  else if c == 43 then some 62
  else if c == 47 then some 63
  else none

def b64decode (s : String) : Option ByteArray := Id.run do
  let bytes := s.toUTF8
  let mut out := ByteArray.empty
  let mut acc : Nat := 0
  let mut bits : Nat := 0
  let mut pad := false
  for b in bytes do
    if b == 61 then pad := true
    else
      if pad then return none
      match b64Val b with
      | none => return none
      | some v =>
        acc := acc * 64 + v
        bits := bits + 6
        if bits ≥ 8 then
          bits := bits - 8
          out := out.push ((acc >>> bits) % 256).toUInt8
          acc := acc % (2 ^ bits)
  return some out

/-! ### positions: swc byte positions ↦ (line, UTF-16 column), both 0-based -/

structure LineIndex where
  src : ByteArray
  lineStarts : Array Nat

def mkLineIndex (src : ByteArray) : LineIndex := Id.run do
  let mut starts := #[0]
  for i in [0:src.size] do
    if src[i]! == 10 then starts := starts.push (i + 1)
  return { src := src, lineStarts := starts }

def utf16Between (src : ByteArray) (a b : Nat) : Nat := Id.run do
  let mut n := 0
  for i in [a:b] do
    if i < src.size then
      let c := src[i]!
      if (c &&& 0xC0) != 0x80 then n := n + (if c ≥ 0xF0 then 2 else 1)
  return n

/-- 0-based line and UTF-16 column of byte offset `off` -/
def LineIndex.pos (ix : LineIndex) (off : Nat) : Nat × Nat := Id.run do
  -- last line start ≤ off
  let mut lo := 0
  let mut hi := ix.lineStarts.size
  while hi - lo > 1 do
    let mid := (lo + hi) / 2
    if ix.lineStarts[mid]! ≤ off then lo := mid else hi := mid
  return (lo, utf16Between ix.src ix.lineStarts[lo]! off)

def LineIndex.lineLen16 (ix : LineIndex) (line : Nat) : Option Nat :=
  if line < ix.lineStarts.size then
    let a := ix.lineStarts[line]!
    let b := if line + 1 < ix.lineStarts.size then ix.lineStarts[line + 1]! else ix.src.size
    some (utf16Between ix.src a b)
  else none

/-! ### resolved tokens -/

structure RTok where
  genLine : Nat
  genCol : Nat
  src : Option (String × Nat × Nat)
  name : Option String
deriving Repr, BEq, Inhabited

def resolveTokens (sources names : List String) (toks : List Token) : List RTok :=
  toks.map fun t =>
    { genLine := t.genLine, genCol := t.genCol,
      src := t.src.map fun (i, l, c) => (sources.getD i "<bad-source-index>", l, c),
      name := t.name.map fun i => names.getD i "<bad-name-index>" }

structure DecodedMap where
  version : Nat
  sources : List String
  names : List String
  tokens : List RTok

def decodeMapJson (txt : String) (applyRoot : Bool := true) : Except String DecodedMap :=
  match J.parse txt with
  | .error e => .error ("map is not JSON: " ++ e)
  | .ok j =>
    -- a consumer resolves every relative source against `sourceRoot` (as the `sourcemap` crate does)
    let root := (j.getD "sourceRoot").strD
    let rootT := String.ofList (root.toList.reverse.dropWhile (· == '/')).reverse
    let resolve := fun (s : String) =>
      if !applyRoot || root.isEmpty || s.startsWith "/" || s.startsWith "http:" || s.startsWith "https:" then s
      else rootT ++ "/" ++ s
    let sources := (j.getD "sources").arrD.map fun x => resolve x.strD
    let names := (j.getD "names").arrD.map J.strD
    match decodeMappings (j.getD "mappings").strD with
    | none => .error "mappings do not decode"
    | some toks => .ok { version := (j.getD "version").natD, sources := sources, names := names,
                         tokens := resolveTokens sources names toks }

/-- tokens as decoded by the `sourcemap` crate (sent by the harness) -/
def crateTokens (j : J) : List RTok :=
  (j.getD "tokens").arrD.map fun t =>
    match t with
    | .arr [gl, gc, sl, sc, src, name] =>
      { genLine := gl.natD, genCol := gc.natD,
        src := match src with | .str s => some (s, sl.natD, sc.natD) | _ => none,
        name := name.str? }
    | _ => default

def rtokLookup (toks : List RTok) (line col : Nat) : Option RTok :=
  (toks.filter fun t => posLe t.genLine t.genCol line col).getLast?

/-! ### C09 oracles -/

def baseName (file : String) : String :=
  ((file.splitOn "/").getLast?.getD file)

/-- identifiers (with positions) of a tree in pre-order -/
def identsOf (n : Node) : List (Name × Span) :=
  (Node.collect (fun k => match k with | .ident .. => true | _ => false) n).filterMap fun k =>
    match k with
    | .ident nm sp => some (nm, sp)
    | _ => none

def allSpans (n : Node) : List Span :=
  (Node.collect (fun _ => true) n).map Node.span

structure MapInput where
  file : String
  src : ByteArray          -- input text (BOM stripped)
  content : ByteArray      -- printed code (without trailer)
  inp : Node
  outMem : Node
  outText : Node
  map : DecodedMap

def checkC09 (m : MapInput) : List (String × String) := Id.run do
  let mut out : List (String × String) := []
  if m.map.version != 3 then out := out ++ [("map-version-not-3", toString m.map.version)]
  if m.map.sources != [baseName m.file] && !(m.map.sources.isEmpty && m.map.tokens.isEmpty) then
    out := out ++ [("sources-not-the-input-base-name", toString m.map.sources)]
  let ixIn := mkLineIndex m.src
  let ixOut := mkLineIndex m.content
  -- every mapping points inside the input text
  for t in m.map.tokens do
    match t.src with
    | some (_, l, c) =>
      match ixIn.lineLen16 l with
      | some len => if c > len then out := out ++ [("mapping-outside-the-input", s!"{t.genLine}:{t.genCol} -> {l}:{c} (line has {len} columns)")]
      | none => out := out ++ [("mapping-outside-the-input", s!"{t.genLine}:{t.genCol} -> line {l} of {ixIn.lineStarts.size}")]
    | none => pure ()
    if out.length > 5 then return out
  -- span discipline: injected nodes carry no position or the position of a node of the input
  let inSpans := allSpans m.inp
  for sp in allSpans m.outMem do
    if !sp.isDummy && !inSpans.contains sp then
      out := out ++ [("output-node-with-a-position-that-is-no-input-node", toString sp)]
      if out.length > 5 then return out
  -- copied identifiers map exactly to their original line and column
  let idsMem := identsOf m.outMem
  let idsText := identsOf m.outText
  if idsMem.length != idsText.length then
    out := out ++ [("identifier-sequences-of-memory-and-text-trees-differ", s!"{idsMem.length} vs {idsText.length}")]
  else
    for (a, b) in idsMem.zip idsText do
      if !a.2.isDummy then
        match a.1 with
        | .user nm =>
          -- injected identifiers (`_ddiast`, `undefined`) carry the span of the operation: skip them by
          -- requiring the original text at that span to be the identifier
          let orig := m.src.extract (a.2.lo - 1) (a.2.hi - 1)
          if orig == nm.toUTF8 then
            let (ol, oc) := ixIn.pos (a.2.lo - 1)
            let (gl, gc) := ixOut.pos (b.2.lo - 1)
            match rtokLookup m.map.tokens gl gc with
            | some t =>
              if !(t.genLine == gl && t.genCol == gc) then
                out := out ++ [("copied-identifier-has-no-mapping-of-its-own", s!"{nm} at generated {gl}:{gc}, nearest mapping {t.genLine}:{t.genCol}")]
              else
                match t.src with
                | some (_, l, c) =>
                  if !(l == ol && c == oc) then
                    out := out ++ [("copied-identifier-maps-to-the-wrong-place", s!"{nm}: generated {gl}:{gc} -> {l}:{c}, original {ol}:{oc}")]
                | none => out := out ++ [("copied-identifier-mapping-without-source", nm)]
            | none => out := out ++ [("copied-identifier-has-no-mapping-of-its-own", s!"{nm} at generated {gl}:{gc}: no mapping at or before")]
        | .temp _ => pure ()
      if out.length > 5 then return out
  return out

/-! ### C10 oracles -/

def rRetarget (orig : List RTok) (t : RTok) : Option RTok :=
  match t.src with
  | none => none
  | some (_, l, c) =>
    match rtokLookup orig l c with
    | none => none
    | some o => some { genLine := t.genLine, genCol := t.genCol, src := o.src, name := o.name }

/-- the map writer does not repeat a token equal to the one just written -/
def dedupConsecutive : List RTok → List RTok
  | a :: b :: rest => if a == b then dedupConsecutive (b :: rest) else a :: dedupConsecutive (b :: rest)
  | l => l

/-- model of `chain_source_maps` on resolved tokens (and of the serialisation of the result) -/
def rChain (rw orig : List RTok) : List RTok := dedupConsecutive (rw.filterMap (rRetarget orig))

end IastModel

import IastModel.Rewriter.Rewrite
import IastModel.Lemmas.Monad
/-
  C08 — the output is JavaScript of the same kind as the input.  The repository's part: the visitors
  never change the kind of the program node (Script stays Script, Module stays Module) and the file
  prologue consists of statements only (no module item), so a script cannot become a module or vice
  versa.  That swc prints, and swc/V8 parse, the tree is exercised on every run (re-parse with the
  rewriter's own parser, `vm.Script`/module compilation in Node), not proved.
-/
namespace IastModel.C08

theorem withKids_kindName (n : Node) (ks : List Node) : (n.withKids ks).kindName = n.kindName := by
  cases n <;> rfl

theorem insertPrologue_kindName (pro : List Node) (p : Node) : (insertPrologue pro p).kindName = p.kindName := by
  unfold insertPrologue
  split <;> rfl

/-- the program node keeps its kind through `visit_mut_program` -/
theorem programVisit_kind (cfg : Config) (pro : List Node) (fuel : Nat) (p : Node) (s : St) :
    (programVisit cfg pro fuel p s).1.kindName = p.kindName := by
  unfold programVisit
  by_cases h : hasReserved (tempPrefix cfg.localVarPrefix) p = true
  · simp [h, run_bind, run_pure, cancelVisit, run_modify]
  · simp only [h, Bool.false_eq_true, if_false, run_bind, mapKidsM, run_pure, run_get]
    by_cases hm : ((mapM' (blockVisit cfg fuel fuel) p.kids s).snd.status == Status.modified) = true
    · simp [hm, run_pure, insertPrologue_kindName, withKids_kindName]
    · simp [hm, run_pure, withKids_kindName]

/-- every statement of the prologue is a plain statement (`;` and an `if`), never an import/export -/
theorem prologue_is_statements (dsts : List String) :
    (prologue dsts).map Node.kindName = ["EmptyStatement", "IfStatement"] := by
  simp [prologue, Node.kindName]

end IastModel.C08

import IastModel.Rewriter.Literals
/-
  C14 — the literal report.  Proved about `add_literal`: only values inside the length window
  (more than 10 and at most 256 bytes) are ever recorded, a value is recorded under its own key, and an
  occurrence (span) is recorded at most once per value, keeping the identifier seen first.
-/
namespace IastModel.C14

/-- the window is `10 < bytes ≤ 256`, the documented bounds -/
theorem window (v : String) : litLengthOk v = true ↔ 10 < v.utf8ByteSize ∧ v.utf8ByteSize ≤ 256 := by
  simp only [litLengthOk, Generated.minLiteralLength, Generated.maxLiteralLength, Bool.and_eq_true,
    decide_eq_true_eq, gt_iff_lt]
  constructor
  · intro h; exact ⟨h.1, of_decide_eq_true h.2⟩
  · intro h; exact ⟨h.1, decide_eq_true h.2⟩

/-- outside the window nothing is recorded -/
theorem addLiteral_outside (m : LitMap) (v : String) (sp : Span) (i : Option String)
    (h : litLengthOk v = false) : addLiteral m v sp i = m := by
  simp [addLiteral, h]

/-- recording never removes a value -/
theorem addLiteral_keys (m : LitMap) (v : String) (sp : Span) (i : Option String) (k : String)
    (hk : k ∈ m.map (·.1)) : k ∈ (addLiteral m v sp i).map (·.1) := by
  unfold addLiteral
  split
  · split
    · simp only [List.map_append, List.mem_append]; exact Or.inl hk
    · simp only [List.map_map]
      rw [List.mem_map] at hk ⊢
      obtain ⟨e, he, rfl⟩ := hk
      refine ⟨e, he, ?_⟩
      simp only [Function.comp]
      split
      · split <;> rfl
      · rfl
  · exact hk

/-- an occurrence already recorded for a value is not recorded again (same span ⇒ unchanged entry) -/
theorem addLiteral_idempotent (v : String) (sp : Span) (j : Option String) (occ : List (Span × Option String))
    (h : litLengthOk v = true) (hin : occ.any (·.1 == sp) = true) :
    addLiteral [(v, occ)] v sp j = [(v, occ)] := by
  simp [addLiteral, h, hin]

/-- collection disabled ⇒ no report (the `get_literals` guard) -/
theorem disabled_no_report (enabled : Bool) (p : Node) (h : enabled = false) :
    (if enabled then some (collectLits p []) else none) = none := by simp [h]

example : litLengthOk "0123456789a" = true ∧ litLengthOk "0123456789" = false := by decide +kernel

end IastModel.C14

import IastModel.Rewriter.Literals
import IastModel.Lemmas.LitBlock
/-
  C14 — the literal report.  Proved about `add_literal`: only values inside the length window
  (more than 10 and at most 256 bytes) are ever recorded, a value is recorded under its own key, and an
  occurrence (span) is recorded at most once per value, keeping the identifier seen first.
-/
namespace IastModel.C14

/-- the window is `10 < bytes ≤ 256`, the documented bounds -/
theorem window (v : String) : litLengthOk v = true ↔ 10 < v.utf8ByteSize ∧ v.utf8ByteSize ≤ 256 := by
  simp only [litLengthOk, Generated.minLiteralLength, Generated.maxLiteralLength, Bool.and_eq_true,
    decide_eq_true_eq, gt_iff_lt]
  constructor
  · intro h; exact ⟨h.1, of_decide_eq_true h.2⟩
  · intro h; exact ⟨h.1, decide_eq_true h.2⟩

/-- outside the window nothing is recorded -/
theorem addLiteral_outside (m : LitMap) (v : String) (sp : Span) (i : Option String)
    (h : litLengthOk v = false) : addLiteral m v sp i = m := by
  simp [addLiteral, h]

/-- recording never removes a value -/
theorem addLiteral_keys (m : LitMap) (v : String) (sp : Span) (i : Option String) (k : String)
    (hk : k ∈ m.map (·.1)) : k ∈ (addLiteral m v sp i).map (·.1) := by
  unfold addLiteral
  split
  · split
    · simp only [List.map_append, List.mem_append]; exact Or.inl hk
    · simp only [List.map_map]
      rw [List.mem_map] at hk ⊢
      obtain ⟨e, he, rfl⟩ := hk
      refine ⟨e, he, ?_⟩
      simp only [Function.comp]
      split
      · split <;> rfl
      · rfl
  · exact hk

/-- an occurrence already recorded for a value is not recorded again (same span ⇒ unchanged entry) -/
theorem addLiteral_idempotent (v : String) (sp : Span) (j : Option String) (occ : List (Span × Option String))
    (h : litLengthOk v = true) (hin : occ.any (·.1 == sp) = true) :
    addLiteral [(v, occ)] v sp j = [(v, occ)] := by
  simp [addLiteral, h, hin]

/-- collection disabled ⇒ no report (the `get_literals` guard) -/
theorem disabled_no_report (enabled : Bool) (p : Node) (h : enabled = false) :
    (if enabled then some (collectLits p []) else none) = none := by simp [h]

example : litLengthOk "0123456789a" = true ∧ litLengthOk "0123456789" = false := by decide +kernel

open Node in
theorem cl_insertPrologue_window (lv : String) (sp0 : Span) (dsts : List String) (hw : litLengthOk lv = true) (p : Node) :
    cl lv sp0 (insertPrologue (prologue dsts) p) = cl lv sp0 p := by
  unfold insertPrologue
  split
  · rename_i k sp ns' body vs
    have := cl_insertPrologue lv sp0 (prologue dsts) k sp ns' body vs
    simp only [insertPrologue] at this
    rw [this, prologue_cl lv sp0 dsts hw]; rfl
  · rfl

/-- **Instrumentation adds no reportable string-literal node and removes none** (the node-set half of
    "never adds, removes … entries").  For every configuration, fuel and program (hypotheses as in
    `master`: the source does not mention the hook namespace and its `+=` targets are of the parser's
    shapes), unless the rewrite is refused: for every value `lv` inside the report window and every span,
    the instrumented program — prologue included — contains the string-literal node `(lv, span)` exactly
    when the source does, and at least as many copies (operands are cloned into hook arguments with their
    spans; the collector's set-by-span removes the copies again).

    PARTIAL with respect to the property: the statement is about the set of literal nodes, not about the
    collector's context rules (the `require(…)` / `new RegExp(…)` exclusions and the initialised name),
    which depend on where the copies end up; those are decided by the differential oracle. -/
theorem instrumentation_keeps_reportable_literal_nodes_partial (cfg : Config) (fuel : Nat) (p : Node)
    (h0 : ns p = 0) (ht : targetsOk p = true)
    (hnc : (transformProgram cfg fuel p).status ≠ .cancelled)
    (lv : String) (sp0 : Span) (hw : litLengthOk lv = true) :
    cl lv sp0 p ≤ cl lv sp0 (transformProgram cfg fuel p).out ∧
    (cl lv sp0 p = 0 ↔ cl lv sp0 (transformProgram cfg fuel p).out = 0) := by
  obtain ⟨p1, hl, hout⟩ := literal_nodes_preserved_master cfg fuel p h0 ht hnc
  have h := hl lv sp0
  have e : cl lv sp0 (transformProgram cfg fuel p).out = cl lv sp0 p1 := by
    rw [hout]; split
    · exact cl_insertPrologue_window lv sp0 cfg.dsts hw p1
    · rfl
  rw [e]
  exact ⟨h.1, h.2, fun h1 => by have := h.1; omega⟩

/-- the operation visitor alone, for every literal value -/
theorem visit_keeps_literal_nodes (cfg : Config) (f : Nat) (root : Bool) (n : Node) (s : St)
    (h0 : ns n = 0) (ht : targetsOk n = true) (hs : s.status ≠ .cancelled) (lv : String) (sp0 : Span) :
    cl lv sp0 n ≤ cl lv sp0 (visit cfg f root n s).1 ∧ (cl lv sp0 n = 0 → cl lv sp0 (visit cfg f root n s).1 = 0) :=
  visit_L lv sp0 cfg (okCfg cfg) (cfgOk_dsts cfg) f root n s h0 ht hs

end IastModel.C14

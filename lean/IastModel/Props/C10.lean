import IastModel.Spec.Codec
/-
  C10 — the chained map is the composition of the rewrite map with the original map.
  Model of `chain_source_maps`: every token of the rewrite map keeps its generated position and is
  re-targeted to what the original map says about its source position; tokens the original map has
  nothing for are dropped.
-/
namespace IastModel.C10
open Codec

/-- what `chain_source_maps` does with one token of the rewrite map -/
def retarget (orig : List Token) (t : Token) : Option Token :=
  match t.src with
  | none => none
  | some (_, l, c) =>
    match lookup orig l c with
    | none => none
    | some o => some { genLine := t.genLine, genCol := t.genCol, src := o.src, name := o.name }

/-- the chained token list -/
def chain (rewriteMap orig : List Token) : List Token := rewriteMap.filterMap (retarget orig)

/-- every token of the rewrite map finds a token in the original map -/
def AllResolvable (rewriteMap orig : List Token) : Prop := ∀ t ∈ rewriteMap, (retarget orig t).isSome

def retargetD (orig : List Token) (t : Token) : Token := (retarget orig t).getD t

theorem retargetD_pos (orig : List Token) (t : Token) :
    (retargetD orig t).genLine = t.genLine ∧ (retargetD orig t).genCol = t.genCol := by
  unfold retargetD retarget
  split
  · simp
  · split <;> simp

theorem chain_eq_map (rw orig : List Token) (h : AllResolvable rw orig) :
    chain rw orig = rw.map (retargetD orig) := by
  unfold chain
  induction rw with
  | nil => rfl
  | cons t ts ih =>
    have ht := h t (by simp)
    have hts : AllResolvable ts orig := fun x hx => h x (by simp [hx])
    cases hr : retarget orig t with
    | none => simp [hr] at ht
    | some o => simp [List.filterMap_cons, hr, retargetD, ih hts]

/-- C10 (composition): looking a generated position up in the chained map gives the token found in
    the rewrite map, re-targeted through the original map — for every position -/
theorem chain_lookup (rw orig : List Token) (h : AllResolvable rw orig) (line col : Nat) :
    lookup (chain rw orig) line col = (lookup rw line col).map (retargetD orig) := by
  rw [chain_eq_map rw orig h]
  exact lookup_map (retargetD orig) (retargetD_pos orig) rw line col

/-- generated positions are never moved by chaining, resolvable or not -/
theorem chain_positions (rw orig : List Token) :
    ∀ t ∈ chain rw orig, ∃ t0 ∈ rw, t.genLine = t0.genLine ∧ t.genCol = t0.genCol := by
  intro t ht
  unfold chain at ht
  rw [List.mem_filterMap] at ht
  obtain ⟨t0, h0, hr⟩ := ht
  refine ⟨t0, h0, ?_⟩
  unfold retarget at hr
  split at hr
  · simp at hr
  · split at hr
    · simp at hr
    · simp at hr; subst hr; simp

/-- non-vacuity -/
example : AllResolvable [⟨0, 4, some (0, 2, 1), none⟩] [⟨2, 0, some (0, 10, 3), some 1⟩] := by
  intro t ht
  simp at ht
  subst ht
  decide

end IastModel.C10

import IastModel.Spec.Codec
/-
  C10 — the chained map is the composition of the rewrite map with the original map.
  Model of `chain_source_maps`: every token of the rewrite map keeps its generated position and is
  re-targeted to what the original map says about its source position; tokens the original map has
  nothing for are dropped.
-/
namespace IastModel.C10
open Codec

/-- what `chain_source_maps` does with one token of the rewrite map -/
def retarget (orig : List Token) (t : Token) : Option Token :=
  match t.src with
  | none => none
  | some (_, l, c) =>
    match lookup orig l c with
    | none => none
    | some o => some { genLine := t.genLine, genCol := t.genCol, src := o.src, name := o.name }

/-- the chained token list -/
def chain (rewriteMap orig : List Token) : List Token := rewriteMap.filterMap (retarget orig)

/-- every token of the rewrite map finds a token in the original map -/
def AllResolvable (rewriteMap orig : List Token) : Prop := ∀ t ∈ rewriteMap, (retarget orig t).isSome

def retargetD (orig : List Token) (t : Token) : Token := (retarget orig t).getD t

theorem retargetD_pos (orig : List Token) (t : Token) :
    (retargetD orig t).genLine = t.genLine ∧ (retargetD orig t).genCol = t.genCol := by
  unfold retargetD retarget
  split
  · simp
  · split <;> simp

theorem chain_eq_map (rw orig : List Token) (h : AllResolvable rw orig) :
    chain rw orig = rw.map (retargetD orig) := by
  unfold chain
  induction rw with
  | nil => rfl
  | cons t ts ih =>
    have ht := h t (by simp)
    have hts : AllResolvable ts orig := fun x hx => h x (by simp [hx])
    cases hr : retarget orig t with
    | none => simp [hr] at ht
    | some o => simp [List.filterMap_cons, hr, retargetD, ih hts]

/-- C10 (composition): looking a generated position up in the chained map gives the token found in
    the rewrite map, re-targeted through the original map — for every position -/
theorem chain_lookup (rw orig : List Token) (h : AllResolvable rw orig) (line col : Nat) :
    lookup (chain rw orig) line col = (lookup rw line col).map (retargetD orig) := by
  rw [chain_eq_map rw orig h]
  exact lookup_map (retargetD orig) (retargetD_pos orig) rw line col

/-- generated positions are never moved by chaining, resolvable or not -/
theorem chain_positions (rw orig : List Token) :
    ∀ t ∈ chain rw orig, ∃ t0 ∈ rw, t.genLine = t0.genLine ∧ t.genCol = t0.genCol := by
  intro t ht
  unfold chain at ht
  rw [List.mem_filterMap] at ht
  obtain ⟨t0, h0, hr⟩ := ht
  refine ⟨t0, h0, ?_⟩
  unfold retarget at hr
  split at hr
  · simp at hr
  · split at hr
    · simp at hr
    · simp at hr; subst hr; simp

/-! ### the writer's removal of repeated tokens -/

/-- the map writer does not repeat a token equal to the one just written (`dedupConsecutive` of the
    checked model, on abstract tokens) -/
def dedup : List Token → List Token
  | a :: b :: rest => if a = b then dedup (b :: rest) else a :: dedup (b :: rest)
  | l => l

/-- the last element of a filtered list, one element at a time -/
theorem last_of_filter_cons (p : Token → Bool) (a : Token) (l : List Token) :
    ((a :: l).filter p).getLast? = ((l.filter p).getLast?).or (if p a then some a else none) := by
  by_cases h : p a = true
  · simp only [List.filter_cons, h, if_true]
    cases hr : l.filter p with
    | nil => simp
    | cons x xs =>
      rw [List.getLast?_cons_cons]
      have : (x :: xs).getLast? = some ((x :: xs).getLast (by simp)) := List.getLast?_eq_getLast (by simp)
      rw [this]; rfl
  · simp only [List.filter_cons, h, Bool.false_eq_true, if_false]
    cases (l.filter p).getLast? <;> simp

/-- dropping a token equal to its successor changes no lookup -/
theorem lookup_dedup : ∀ (l : List Token) (line col : Nat), lookup (dedup l) line col = lookup l line col := by
  intro l line col
  unfold lookup
  generalize (fun t : Token => posLe t.genLine t.genCol line col) = p
  induction l using dedup.induct with
  | case1 a rest ih =>
    rw [dedup, if_pos rfl, ih, last_of_filter_cons p a (a :: rest), last_of_filter_cons p a rest]
    cases ((rest.filter p).getLast?) <;> cases (if p a = true then some a else none) <;> simp
  | case2 a b rest hab ih =>
    rw [dedup, if_neg hab, last_of_filter_cons p a (dedup (b :: rest)), ih, ← last_of_filter_cons p a (b :: rest)]
  | case3 l hl => rw [dedup]; exact hl

/-- **C10 (composition, as emitted).**  The chained map as the writer emits it — tokens re-targeted
    through the original map, then repeated tokens dropped — answers every lookup like looking the
    position up in the rewrite map and then in the original map. -/
theorem emitted_chain_lookup (rw orig : List Token) (h : AllResolvable rw orig) (line col : Nat) :
    lookup (dedup (chain rw orig)) line col = (lookup rw line col).map (retargetD orig) := by
  rw [lookup_dedup, chain_lookup rw orig h]

/-! ### without the hypothesis: tokens the original map cannot resolve are dropped, nothing else changes -/

/-- the rewrite tokens the original map resolves -/
def resolvable (orig : List Token) (rw : List Token) : List Token := rw.filter fun t => (retarget orig t).isSome

theorem chain_eq_resolvable (rw orig : List Token) : chain rw orig = chain (resolvable orig rw) orig := by
  unfold chain resolvable
  induction rw with
  | nil => rfl
  | cons t ts ih =>
    cases hr : retarget orig t with
    | none => simp [List.filterMap_cons, List.filter_cons, hr, ih]
    | some o => simp [List.filterMap_cons, List.filter_cons, hr, ih]

theorem resolvable_all (rw orig : List Token) : AllResolvable (resolvable orig rw) orig := by
  intro t ht
  simp only [resolvable, List.mem_filter] at ht
  exact ht.2

/-- **C10 (composition, every pair of maps).**  For *every* rewrite map and original map: the chained map
    as the writer emits it answers every lookup like looking the position up among the rewrite tokens the
    original map resolves, and then in the original map.  (A rewrite token whose source position lies before
    the first token of the original map has no origin to be re-targeted to and is dropped — the recorded
    behaviour F19 — so a position inside it resolves like the token before it.) -/
theorem emitted_chain_lookup_general (rw orig : List Token) (line col : Nat) :
    lookup (dedup (chain rw orig)) line col = (lookup (resolvable orig rw) line col).map (retargetD orig) := by
  rw [chain_eq_resolvable]
  exact emitted_chain_lookup (resolvable orig rw) orig (resolvable_all rw orig) line col

/-- non-vacuity -/
example : AllResolvable [⟨0, 4, some (0, 2, 1), none⟩] [⟨2, 0, some (0, 10, 3), some 1⟩] := by
  intro t ht
  simp at ht
  subst ht
  decide

end IastModel.C10

import IastModel.Rewriter.Rewrite
/-
  C15 — reported metrics.  Read-out part (src/telemetry.rs, `get_metrics`): the three telemetry
  implementations as a function of the list of `inc` calls.
-/
namespace IastModel.C15

/-- verbosity OFF: zero and no breakdown, whatever was instrumented -/
theorem off_reports_nothing (incs : List (Option String)) :
    instrumentedPropagation .off incs = 0 ∧ propagationDebug .off incs = none := by
  simp [instrumentedPropagation, propagationDebug]

/-- every other verbosity reports the number of `inc` calls -/
theorem count_is_incs (v : Verbosity) (incs : List (Option String)) (h : v ≠ .off) :
    instrumentedPropagation v incs = incs.length := by
  cases v <;> simp_all [instrumentedPropagation]

/-- only DEBUG produces a breakdown -/
theorem breakdown_only_in_debug (v : Verbosity) (incs : List (Option String)) :
    (propagationDebug v incs).isSome ↔ v = .debug := by
  cases v <;> simp [propagationDebug]

theorem countTag_cons (t u : String) (ts : List String) :
    countTag (u :: ts) t = (if u == t then 1 else 0) + countTag ts t := by
  unfold countTag
  by_cases h : u == t <;> simp [List.filter_cons, h] <;> omega

/-- the status string is the lower-cased status and the file name is the argument -/
theorem status_and_file (cfg : Config) (r : ModelResult) (file : String) :
    (getMetrics cfg r file).file = file ∧
    (getMetrics cfg r file).status = r.status.name.toLower := by
  simp [getMetrics]

theorem status_strings :
    Status.notModified.name.toLower = "notmodified" ∧ Status.modified.name.toLower = "modified" ∧
    Status.cancelled.name.toLower = "cancelled" := by decide +kernel

end IastModel.C15

import IastModel.Lemmas.Master
import IastModel.Rewriter.Rewrite
import IastModel.Lemmas.CnMaster
/-
  C15 — reported metrics.  Read-out part (src/telemetry.rs, `get_metrics`): the three telemetry
  implementations as a function of the list of `inc` calls.
-/
namespace IastModel.C15

/-- verbosity OFF: zero and no breakdown, whatever was instrumented -/
theorem off_reports_nothing (incs : List (Option String)) :
    instrumentedPropagation .off incs = 0 ∧ propagationDebug .off incs = none := by
  simp [instrumentedPropagation, propagationDebug]

/-- every other verbosity reports the number of `inc` calls -/
theorem count_is_incs (v : Verbosity) (incs : List (Option String)) (h : v ≠ .off) :
    instrumentedPropagation v incs = incs.length := by
  cases v <;> simp_all [instrumentedPropagation]

/-- only DEBUG produces a breakdown -/
theorem breakdown_only_in_debug (v : Verbosity) (incs : List (Option String)) :
    (propagationDebug v incs).isSome ↔ v = .debug := by
  cases v <;> simp [propagationDebug]

theorem countTag_cons (t u : String) (ts : List String) :
    countTag (u :: ts) t = (if u == t then 1 else 0) + countTag ts t := by
  unfold countTag
  by_cases h : u == t <;> simp [List.filter_cons, h] <;> omega

/-- the status string is the lower-cased status and the file name is the argument -/
theorem status_and_file (cfg : Config) (r : ModelResult) (file : String) :
    (getMetrics cfg r file).file = file ∧
    (getMetrics cfg r file).status = r.status.name.toLower := by
  simp [getMetrics]

theorem status_strings :
    Status.notModified.name.toLower = "notmodified" ∧ Status.modified.name.toLower = "modified" ∧
    Status.cancelled.name.toLower = "cancelled" := by decide +kernel


/-! ### the full statement, for every program: reported count = hook call sites emitted -/

/-- **C15 (count).**  For every configuration, fuel and source program (one that does not itself
    mention the hook namespace and whose compound-assignment targets have JavaScript shapes — both
    checked on every input by the driver), if the rewrite is not refused then the number of
    `_ddiast.<name>(…)` call sites in the output equals the number of telemetry increments, and
    therefore the reported `instrumentedPropagation` under every verbosity but OFF. -/
theorem reported_count_is_hook_sites (cfg : Config) (fuel : Nat) (p : Node)
    (h0 : ns p = 0) (ht : targetsOk p = true)
    (hnc : (transformProgram cfg fuel p).status ≠ .cancelled) (hv : cfg.verbosity ≠ .off) :
    instrumentedPropagation cfg.verbosity (transformProgram cfg fuel p).incs =
      hookCount (transformProgram cfg fuel p).out := by
  rw [count_is_incs _ _ hv]
  exact (master cfg fuel p h0 ht hnc).1.symm

/-- non-vacuity: a program that satisfies the hypotheses and is instrumented -/
example : ns (Node.exprStmt (.bin "+" (.ident (.user "a") ⟨0, 1⟩) (.ident (.user "b") ⟨4, 5⟩) ⟨0, 5⟩) ⟨0, 5⟩) = 0 := by
  decide +kernel


/-- **C15 (per-operation breakdown).**  For every replacement name `d`: the number of
    `_ddiast.d(…)` call sites of the output equals the number of telemetry entries whose tag stands for
    `d` (`+` and `+=` for the plus operator, `Tpl` for the template operator, a method's source name
    for its replacement name) — so the per-tag debug counts partition the reported number by operation.
    Whole pipeline, every configuration in which no method is named like an operator tag
    (`CfgTagsOk`), every fuel and program (hypotheses as in `master`), unless refused. -/
theorem debug_counts_partition_hook_sites (cfg : Config) (fuel : Nat) (p : Node)
    (h0 : ns p = 0) (ht : targetsOk p = true) (hct : CfgTagsOk cfg)
    (hnc : (transformProgram cfg fuel p).status ≠ .cancelled) (d : String) :
    countStr (hookNames (transformProgram cfg fuel p).out) d = countTags cfg d (transformProgram cfg fuel p).incs :=
  tags_partition_hooks_master cfg fuel p h0 ht hct hnc d

end IastModel.C15

import IastModel.Rewriter.Visitor
/-
  C13 — totality.  Every definition of the model is a total Lean function (structural recursion or
  recursion on fuel), so the modelled logic cannot loop.  The lemmas below discharge the
  `unwrap`/index sites of /repo/src listed by tools/inventory.py: each states that the guard that
  precedes the site in the code implies the site's precondition.
-/
namespace IastModel.C13

/-- `trim_comment.get(SOURCE_MAP_URL.len()..).unwrap()` after `starts_with(SOURCE_MAP_URL)`:
    a string that starts with a prefix is at least as long as the prefix (so the slice exists; the
    prefix is ASCII, so the cut is on a character boundary) -/
theorem prefix_slice_exists (s pfx : List Char) (h : pfx <+: s) : pfx.length ≤ s.length ∧ s.drop pfx.length = s.drop pfx.length ∧
    s = pfx ++ s.drop pfx.length := by
  obtain ⟨t, rfl⟩ := h
  simp

/-- `path_parts[0]` after `get_prototype_member_path` returned true: the method ident exists -/
theorem static_path_has_method (member : Node) (h : isStaticPath member = true) :
    ∃ o m msp sp, member = .member o (.pname m msp) sp := by
  cases member with
  | member o p sp =>
    cases p with
    | pname m msp => exact ⟨_, _, _, _, rfl⟩
    | _ => simp [isStaticPath] at h
  | _ => simp [isStaticPath] at h

theorem prototypeMethodIdent_some_of_static (member : Node) (h : isStaticPath member = true) :
    (prototypeMethodIdent member).isSome := by
  obtain ⟨o, m, msp, sp, rfl⟩ := static_path_has_method member h
  simp [prototypeMethodIdent, h]

/-- `call.args[0]` after `call.args.is_empty()` was checked; `call.args[0]`, `call.args[1]` in
    `invalid_args` after `call.args.len() >= 2` -/
theorem args_index (args : List Node) : (¬ args.isEmpty → ∃ a rest, args = a :: rest) ∧
    (2 ≤ args.length → ∃ a b rest, args = a :: b :: rest) := by
  constructor
  · intro h; cases args with
    | nil => simp at h
    | cons a rest => exact ⟨a, rest, rfl⟩
  · intro h
    match args, h with
    | a :: b :: rest, _ => exact ⟨a, b, rest, rfl⟩

/-- `visitor.new_ident.as_mut().unwrap()` in `to_dd_cond_expr` is reached only when `new_ident` is
    some: the model's `toDdCond` matches on it, and when it answers "modified" the guard was some -/
theorem toDdCond_guard (cfg : Config) (fuel : Nat) (e : Node) (s : St) (r : Node)
    (h : (toDdCond cfg fuel e s).1.2 = some r) :
    ∃ asg c, r = .paren (.seq (asg ++ [c]) Span.dummy) Span.dummy ∧ asg ≠ [] := by
  unfold toDdCond at h
  simp only [bind, StateT.bind] at h
  generalize (StateT.run (ocVisit cfg fuel e) {} s) = X at h
  obtain ⟨⟨e', oc⟩, s'⟩ := X
  simp only at h
  cases hn : oc.newIdent with
  | none => simp [hn, pure, StateT.pure] at h
  | some t =>
    simp only [hn] at h
    by_cases ha : oc.assignments.isEmpty = true
    · simp [ha, pure, StateT.pure] at h
    · simp only [ha, Bool.false_eq_true, if_false, pure, StateT.pure] at h
      simp at h
      subst h
      refine ⟨oc.assignments, _, rfl, ?_⟩
      intro hnil; simp [hnil] at ha

/-- `rnd_string`: `get_unchecked(fastrand::usize(0..chars.len()))` — an index drawn below the length is in range -/
theorem rnd_index_in_range (len i : Nat) (h : i < len) (chars : List Char) (hl : chars.length = len) :
    chars[i]?.isSome := by
  simp [hl, h]

/-- the fuel the driver gives is positive for every program (the model never starts exhausted) -/
theorem fuel_positive (p : Node) : 0 < 4 * p.size + 64 := by omega

end IastModel.C13

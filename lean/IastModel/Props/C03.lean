import IastModel.Rewriter.Visitor
import IastModel.Spec.ArgsMirror
import IastModel.Lemmas.Monad
import IastModel.Lemmas.Tree
import IastModel.Lemmas.MirCall
import IastModel.Lemmas.CwMaster
/-
  C03 — hooks receive the true result and the true operands, in order (static half).
  Proved: for every operand that is not a `+` chain the operand handler pushes exactly the operand it
  leaves in the wrapped expression (same temporary / identifier / literal, spread flag kept), and a hook
  call built for `l + r` from its two operands passes the mirror check `(l + r, l, r)` — the check the
  oracle applies to every hook site of every real output.
-/
namespace IastModel.C03

theorem replaceDefault_pushes (e : Node) (asg args : List Node) (sp : Span) (kind : IdentKind) (s : St) :
    (replaceDefault e asg args sp kind s).1.2.2 = args ++ [exprOrSpread (replaceDefault e asg args sp kind s).1.1 kind] := by
  unfold replaceDefault getIdentUsed getTemporalIdent
  by_cases hl : e.isLit = true
  · simp [hl, run_bind, run_pure]
  · simp [hl, run_bind, run_pure, run_map]

theorem handler_pushes_what_it_leaves (e : Node) (mode : IdentMode) (asg args : List Node) (sp : Span)
    (kind : IdentKind) (s : St) (h : isPlusSum e = false) :
    (replaceExprNoExpand e mode asg args sp kind s).1.2.2
      = args ++ [exprOrSpread (replaceExprNoExpand e mode asg args sp kind s).1.1 kind] := by
  cases e with
  | lit k v r lsp => simp [replaceExprNoExpand, run_pure]
  | ident nm isp =>
    cases mode with
    | replace => simp only [replaceExprNoExpand]; exact replaceDefault_pushes ..
    | keep => simp [replaceExprNoExpand, run_pure]
  | bin op l r bsp =>
    have hop : op ≠ "+" := by
      intro hh; subst hh; simp [isPlusSum] at h
    simp only [replaceExprNoExpand, bne_iff_ne, ne_eq, hop, not_false_eq_true, if_true]
    exact replaceDefault_pushes ..
  | _ => simp only [replaceExprNoExpand]; exact replaceDefault_pushes ..

/-- the hook call for a sum whose operands are the pushed ones mirrors them -/
theorem plus_hook_mirrors (cfg : Config) (l r : Node) (sp : Span) :
    argsMirrorSite cfg (ddCall (.bin "+" l r sp) [.arg none l, .arg none r] cfg.plusName sp) = none := by
  simp [argsMirrorSite, argsMirrorFirst, mirrorPlus, ddCall, ddCallee, argsEq, Node.eqNSL, Node.eqNS, Node.eqNS_refl]

/-- the hook call for a template mirrors its substitutions -/
theorem tpl_hook_mirrors (cfg : Config) (exprs quasis : List Node) (sp : Span)
    (h : ∀ e ∈ exprs, mirrorOf e = .arg none e) :
    argsMirrorSite cfg (ddCall (.tpl exprs quasis sp) (exprs.map fun e => .arg none e) cfg.tplName sp) = none := by
  have : exprs.map mirrorOf = exprs.map fun e => Node.arg none e := List.map_congr_left h
  simp [argsMirrorSite, argsMirrorFirst, mirrorTpl, ddCall, ddCallee, argsEq, this, Node.eqNSL_refl]

/-! ### every hook call the rewriter builds mirrors the operation in its first argument

`MirOK cfg h`: the specification `argsMirrorSite` (the oracle applied to every hook site of every real
output) accepts the site `h`, or classifies it as "a `+` chain that is not made of literals only is among
the operands and was not passed on" — the omission recorded as a known finding (KNOWN_FINDINGS.txt, C03).
No other mismatch class is possible, for any operands, any argument list (spreads, `apply` arrays with
holes and spreads, sums of literals), any state. -/

/-- `l + r` -/
theorem plus_hook_built_mirrors (cfg : Config) (l r : Node) (sp : Span) (s : St) (e' : Node)
    (h : (toDdBinary cfg (.bin "+" l r sp) s).1 = some e') :
    ∃ first args asg, e' = ddParen first args asg cfg.plusName sp ∧ MirOK cfg (ddCall first args cfg.plusName sp) :=
  toDdBinary_mirror cfg l r sp s e' h

/-- `target += r` -/
theorem plus_assign_hook_built_mirrors (cfg : Config) (op : String) (left r : Node) (sp : Span) (s : St) (e' : Node)
    (h : (toDdAssign cfg (.assign op left r sp) s).1 = some e') :
    ∃ target first args asg, e' = .assign "=" target (ddParen first args asg cfg.plusName sp) sp ∧
      MirOK cfg (ddCall first args cfg.plusName sp) :=
  toDdAssign_mirror cfg op left r sp s e' h

/-- template literals -/
theorem template_hook_built_mirrors (cfg : Config) (es qs : List Node) (sp : Span) (s : St) (e' : Node)
    (h : (toDdTpl cfg (.tpl es qs sp) s).1 = some e') :
    ∃ first args asg, e' = ddParen first args asg cfg.tplName sp ∧ MirOK cfg (ddCall first args cfg.tplName sp) :=
  toDdTpl_mirror cfg es qs sp s e' h

/-- method calls: `recv.m(…)`, `m(…)` without receiver, `X.prototype.m.call|apply(this, …)`, with a
    spread `this`, with `apply` arrays -/
theorem call_hook_built_mirrors (cfg : Config) (callee : Node) (cargs : List Node) (csp : Span) (s : St)
    (e' : Node) (tag : String) (h : (toDdCall cfg (.call callee cargs csp) s).1 = some (e', tag)) :
    ∃ first args asg name sp, e' = ddParen first args asg name sp ∧ MirOK cfg (ddCall first args name sp) :=
  toDdCall_mirror cfg callee cargs csp s e' tag h

/-! ### the whole pipeline -/

/-- **Every hook call of the instrumented program mirrors the operation in its first argument** (the static
    half of C03, whole pipeline).  For every configuration, fuel and program (hypotheses as in `master`:
    the source does not mention the hook namespace, its `+=` targets are of the parser's shapes; both
    reported per input by the driver), unless the rewrite is refused: every hook call site of the output
    is accepted by `argsMirrorSite` or is classified as the recorded omission (`MirOK`).  Proved through
    a certificate established where each hook call is built (`Cert`, `toDd*_cert`), shown to survive the
    only later change to a built site — the block visitor rewriting block statements nested in it
    (`BR`, `cert_BR`, `blockVisit_BR`) — and a counting pass over the visitors (`visit_W`,
    `blockVisit_W`, generic in the counted predicate: `Cq*.lean`). -/
theorem every_hook_mirrors_its_operation (cfg : Config) (fuel : Nat) (p : Node) (h0 : ns p = 0) (ht : targetsOk p = true)
    (hnc : (transformProgram cfg fuel p).status ≠ .cancelled) :
    ∀ h ∈ hooks (transformProgram cfg fuel p).out, MirOK cfg h :=
  hooks_mirror_master cfg fuel p h0 ht hnc

/-- in the executable vocabulary of the oracle: the only classes `argsMirror` can report on a model
    output are the three "sum omitted" classes -/
theorem argsMirror_reports_only_omitted_sums (cfg : Config) (fuel : Nat) (p : Node) (h0 : ns p = 0) (ht : targetsOk p = true)
    (hnc : (transformProgram cfg fuel p).status ≠ .cancelled) :
    ∀ c ∈ argsMirror cfg (transformProgram cfg fuel p).out,
      c = sumClass cfg "plus" ∨ c = sumClass cfg "tpl" ∨ c = sumClass cfg "call" := by
  intro c hc
  simp only [argsMirror, List.mem_filterMap] at hc
  obtain ⟨h, hh, hs⟩ := hc
  rcases hooks_mirror_master cfg fuel p h0 ht hnc h hh with hm | ⟨w, hw, hm⟩
  · rw [hm] at hs; cases hs
  · rw [hm] at hs
    simp only [Option.some.injEq] at hs
    subst hs
    rcases hw with rfl | rfl | rfl
    · exact Or.inl rfl
    · exact Or.inr (Or.inl rfl)
    · exact Or.inr (Or.inr rfl)

/-- the operation visitor alone leaves no hook site that fails the mirror check -/
theorem visit_leaves_only_mirroring_hooks (cfg : Config) (f : Nat) (root : Bool) (n : Node) (s : St)
    (h0 : ns n = 0) (ht : targetsOk n = true) (hs : s.status ≠ .cancelled) :
    ∀ h ∈ hooks (visit cfg f root n s).1, MirOK cfg h := by
  have hz : cv cfg (visit cfg f root n s).1 = 0 := by
    rw [visit_V cfg (okCfg cfg) (cfgOk_dsts cfg) f root n s h0 ht hs]
    exact cq_of_ns0 _ n h0
  intro h hh
  have := cq_zero_hooks _ _ hz h hh
  exact MirOK_of_siteOKb (by simpa [badSite] using this)

end IastModel.C03

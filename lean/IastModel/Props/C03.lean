import IastModel.Rewriter.Visitor
import IastModel.Spec.ArgsMirror
import IastModel.Lemmas.Monad
import IastModel.Lemmas.Tree
import IastModel.Lemmas.MirCall
/-
  C03 — hooks receive the true result and the true operands, in order (static half).
  Proved: for every operand that is not a `+` chain the operand handler pushes exactly the operand it
  leaves in the wrapped expression (same temporary / identifier / literal, spread flag kept), and a hook
  call built for `l + r` from its two operands passes the mirror check `(l + r, l, r)` — the check the
  oracle applies to every hook site of every real output.
-/
namespace IastModel.C03

theorem replaceDefault_pushes (e : Node) (asg args : List Node) (sp : Span) (kind : IdentKind) (s : St) :
    (replaceDefault e asg args sp kind s).1.2.2 = args ++ [exprOrSpread (replaceDefault e asg args sp kind s).1.1 kind] := by
  unfold replaceDefault getIdentUsed getTemporalIdent
  by_cases hl : e.isLit = true
  · simp [hl, run_bind, run_pure]
  · simp [hl, run_bind, run_pure, run_map]

theorem handler_pushes_what_it_leaves (e : Node) (mode : IdentMode) (asg args : List Node) (sp : Span)
    (kind : IdentKind) (s : St) (h : isPlusSum e = false) :
    (replaceExprNoExpand e mode asg args sp kind s).1.2.2
      = args ++ [exprOrSpread (replaceExprNoExpand e mode asg args sp kind s).1.1 kind] := by
  cases e with
  | lit k v r lsp => simp [replaceExprNoExpand, run_pure]
  | ident nm isp =>
    cases mode with
    | replace => simp only [replaceExprNoExpand]; exact replaceDefault_pushes ..
    | keep => simp [replaceExprNoExpand, run_pure]
  | bin op l r bsp =>
    have hop : op ≠ "+" := by
      intro hh; subst hh; simp [isPlusSum] at h
    simp only [replaceExprNoExpand, bne_iff_ne, ne_eq, hop, not_false_eq_true, if_true]
    exact replaceDefault_pushes ..
  | _ => simp only [replaceExprNoExpand]; exact replaceDefault_pushes ..

/-- the hook call for a sum whose operands are the pushed ones mirrors them -/
theorem plus_hook_mirrors (cfg : Config) (l r : Node) (sp : Span) :
    argsMirrorSite cfg (ddCall (.bin "+" l r sp) [.arg none l, .arg none r] cfg.plusName sp) = none := by
  simp [argsMirrorSite, argsMirrorFirst, mirrorPlus, ddCall, ddCallee, argsEq, Node.eqNSL, Node.eqNS, Node.eqNS_refl]

/-- the hook call for a template mirrors its substitutions -/
theorem tpl_hook_mirrors (cfg : Config) (exprs quasis : List Node) (sp : Span)
    (h : ∀ e ∈ exprs, mirrorOf e = .arg none e) :
    argsMirrorSite cfg (ddCall (.tpl exprs quasis sp) (exprs.map fun e => .arg none e) cfg.tplName sp) = none := by
  have : exprs.map mirrorOf = exprs.map fun e => Node.arg none e := List.map_congr_left h
  simp [argsMirrorSite, argsMirrorFirst, mirrorTpl, ddCall, ddCallee, argsEq, this, Node.eqNSL_refl]

/-! ### every hook call the rewriter builds mirrors the operation in its first argument

`MirOK cfg h`: the specification `argsMirrorSite` (the oracle applied to every hook site of every real
output) accepts the site `h`, or classifies it as "a `+` chain that is not made of literals only is among
the operands and was not passed on" — the omission recorded as a known finding (KNOWN_FINDINGS.txt, C03).
No other mismatch class is possible, for any operands, any argument list (spreads, `apply` arrays with
holes and spreads, sums of literals), any state. -/

/-- `l + r` -/
theorem plus_hook_built_mirrors (cfg : Config) (l r : Node) (sp : Span) (s : St) (e' : Node)
    (h : (toDdBinary cfg (.bin "+" l r sp) s).1 = some e') :
    ∃ first args asg, e' = ddParen first args asg cfg.plusName sp ∧ MirOK cfg (ddCall first args cfg.plusName sp) :=
  toDdBinary_mirror cfg l r sp s e' h

/-- `target += r` -/
theorem plus_assign_hook_built_mirrors (cfg : Config) (op : String) (left r : Node) (sp : Span) (s : St) (e' : Node)
    (h : (toDdAssign cfg (.assign op left r sp) s).1 = some e') :
    ∃ target first args asg, e' = .assign "=" target (ddParen first args asg cfg.plusName sp) sp ∧
      MirOK cfg (ddCall first args cfg.plusName sp) :=
  toDdAssign_mirror cfg op left r sp s e' h

/-- template literals -/
theorem template_hook_built_mirrors (cfg : Config) (es qs : List Node) (sp : Span) (s : St) (e' : Node)
    (h : (toDdTpl cfg (.tpl es qs sp) s).1 = some e') :
    ∃ first args asg, e' = ddParen first args asg cfg.tplName sp ∧ MirOK cfg (ddCall first args cfg.tplName sp) :=
  toDdTpl_mirror cfg es qs sp s e' h

/-- method calls: `recv.m(…)`, `m(…)` without receiver, `X.prototype.m.call|apply(this, …)`, with a
    spread `this`, with `apply` arrays -/
theorem call_hook_built_mirrors (cfg : Config) (callee : Node) (cargs : List Node) (csp : Span) (s : St)
    (e' : Node) (tag : String) (h : (toDdCall cfg (.call callee cargs csp) s).1 = some (e', tag)) :
    ∃ first args asg name sp, e' = ddParen first args asg name sp ∧ MirOK cfg (ddCall first args name sp) :=
  toDdCall_mirror cfg callee cargs csp s e' tag h

end IastModel.C03

import IastModel.Rewriter.Visitor
import IastModel.Spec.Coverage
import IastModel.Lemmas.Monad
import IastModel.Lemmas.CovBlock
/-
  C04 — every enabled operation in blocks is instrumented.  Local coverage lemmas: the `+` transform
  never declines a sum that has an operand which is neither a literal sum nor a `+` chain, and the
  template transform never declines; together with the traversal (children first, every expression
  position of a block) this is what makes the oracle "every instrumentable occurrence of the input has
  its hook in the output" hold.
-/
namespace IastModel.C04

theorem replaceDefault_pushes_nonliteral (e : Node) (asg args : List Node) (sp : Span) (kind : IdentKind) (s : St)
    (h : isLiteralSum e = false) :
    mustReplaceBinary (replaceDefault e asg args sp kind s).1.2.2 = true := by
  unfold replaceDefault getIdentUsed getTemporalIdent
  have hl : e.isLit = false := by
    cases e <;> simp_all [isLiteralSum, Node.isLit]
  simp [hl, run_bind, run_pure, run_map, mustReplaceBinary, exprOrSpread, tempIdent]
  right
  cases kind <;> simp [argExpr, isLiteralSum]

theorem mustReplace_mono (args extra : List Node) (h : mustReplaceBinary args = true) :
    mustReplaceBinary (args ++ extra) = true := by
  simp [mustReplaceBinary] at h ⊢
  obtain ⟨a, ha, hna⟩ := h
  exact Or.inl ⟨a, ha, hna⟩

/-- the template transform always instruments (the visitor calls it only for templates whose
    substitutions are all non-literal) -/
theorem tpl_never_declines (cfg : Config) (exprs quasis : List Node) (sp : Span) (s : St) :
    ((toDdTpl cfg (.tpl exprs quasis sp)) s).1.isSome = true := by
  simp [toDdTpl, run_bind, run_pure]

/-- the specification side: a sum of literals only is never an occurrence to cover, anything else is
    (when `+` is enabled) -/
theorem plus_occurrence_iff (cfg : Config) (l r : Node) (sp : Span) (h : cfg.plusEnabled = true) :
    (ownOcc cfg (.bin "+" l r sp)).isSome = !(litSum l && litSum r) := by
  simp [ownOcc, h]
  cases litSum l <;> cases litSum r <;> simp

/-! ### coverage of `+`, `+=`, template literals and plain method calls through the visitors

`R cfg d sp0 n` counts the `+` / `+=` / template / `recv.m(..)` occurrences that the specification (`ownOcc`, written from the
property text) requires for the hook site `(d, sp0)` in the positions of `n` that the operation visitor
reaches — everything but the operands of `delete`, the substitutions of a template that has a literal
one, nested blocks and arrow functions (those belong to the block visitor) and optional chains (not
claimed here).  `cq (qAt d sp0) t` counts the hook calls of `t` named `d` with span `sp0`. -/

/-- the specification's `+` occurrence is what `R` counts for a `+` node -/
theorem required_plus_is_counted (cfg : Config) (op : String) (l r : Node) (sp : Span) (o : Occ)
    (h : ownOcc cfg (.bin op l r sp) = some o) : reqOwn cfg o.dst o.sp (.bin op l r sp) = 1 :=
  reqOwn_spec_bin cfg op l r sp o h

/-- the specification's `+=` occurrence is what `R` counts for a compound assignment -/
theorem required_plus_assign_is_counted (cfg : Config) (op : String) (l r : Node) (sp : Span) (o : Occ)
    (h : ownOcc cfg (.assign op l r sp) = some o) : reqOwn cfg o.dst o.sp (.assign op l r sp) = 1 :=
  reqOwn_spec_assign cfg op l r sp o h

/-- the specification's `recv.m(..)` occurrence (receiver: identifier, call result, parenthesised
    expression, array literal, member access other than `.prototype`, or an allowed literal; `m` not
    `call`/`apply` — those are the `X.prototype.m.call(..)` forms, left to the oracle) is what `R` counts -/
theorem required_method_call_is_counted (cfg : Config) (recv : Node) (m : String) (msp cmsp : Span) (cargs : List Node)
    (sp : Span) (csi : CsiMethod) (hg : cfg.get m = some csi) (hca : isCallOrApply m = false) (hr : recvOK cfg m recv = true) :
    ownOcc cfg (.call (.member recv (.pname m msp) cmsp) cargs sp) = some ⟨csi.dst, sp, "call"⟩ ∧
    reqOwn cfg csi.dst sp (.call (.member recv (.pname m msp) cmsp) cargs sp) = 1 :=
  reqOwn_spec_call cfg recv m msp cmsp cargs sp csi hg hca hr

/-- the specification's template occurrence is what `R` counts for a template node -/
theorem required_template_is_counted (cfg : Config) (exprs qs : List Node) (sp : Span) (o : Occ)
    (h : ownOcc cfg (.tpl exprs qs sp) = some o) : reqOwn cfg o.dst o.sp (.tpl exprs qs sp) = 1 :=
  reqOwn_spec_tpl cfg exprs qs sp o h

/-- the operation visitor instruments every required `+` / `+=` / template / `recv.m(..)` occurrence it reaches, unless it runs
    out of fuel (`fuelOut`, reported by the driver for every input) -/
theorem visit_instruments_required_operations (cfg : Config) (d : String) (sp0 : Span)
    (f : Nat) (root : Bool) (n : Node) (s : St) (h0 : ns n = 0) (ht : targetsOk n = true)
    (hs : s.status ≠ .cancelled) (hfo : (visit cfg f root n s).2.fuelOut = false) :
    R cfg d sp0 n ≤ cq (qAt d sp0) (visit cfg f root n s).1 :=
  (visit_cover cfg (okCfg cfg) (cfgOk_dsts cfg) d sp0 f root n s h0 ht hs hfo).1

/-- **C04 for `+`, `+=`, template literals and `recv.m(..)`, per block** (PARTIAL with respect to the property:
    `X.prototype.m.call|apply(..)`, `recv?.m(..)` and occurrences inside optional chains are decided by the coverage oracle, and "every block of
    the file is entered" is not part of the statement).  Every block statement the block visitor enters —
    at any depth, in any state that is not cancelled, the block not mentioning the hook namespace and
    with parser-shaped `+=` targets — comes back, unless the run is cancelled or out of fuel, with at
    least one hook call of the expected name and span for every required occurrence in its statements. -/
theorem entered_block_instruments_required_operations_partial (cfg : Config) (d : String) (sp0 : Span)
    (opFuel f : Nat) (ss : List Node) (sp : Span) (s : St) (hs : s.status ≠ .cancelled)
    (h0 : nsL ss = 0) (hb : badL ss = 0)
    (hfin : (blockVisit cfg opFuel (f + 1) (.block ss sp) s).2.status ≠ .cancelled)
    (hfo : (blockVisit cfg opFuel (f + 1) (.block ss sp) s).2.fuelOut = false) :
    RL cfg d sp0 ss ≤ cq (qAt d sp0) (blockVisit cfg opFuel (f + 1) (.block ss sp) s).1 :=
  block_cover (okCfg cfg) cfg (cfgOk_dsts cfg) d sp0 opFuel f ss sp s hs
    (by rw [good_block]; simp [h0, hb]) hfin hfo

end IastModel.C04

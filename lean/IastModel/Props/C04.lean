import IastModel.Rewriter.Visitor
import IastModel.Spec.Coverage
import IastModel.Lemmas.Monad
import IastModel.Lemmas.CovBlock
import IastModel.Lemmas.CovProgram
import IastModel.Lemmas.KeepArrow
import IastModel.Lemmas.CovSites
import IastModel.Lemmas.CovScope
import IastModel.Lemmas.Master
/-
  C04 — every enabled operation in blocks is instrumented.  Local coverage lemmas: the `+` transform
  never declines a sum that has an operand which is neither a literal sum nor a `+` chain, and the
  template transform never declines; together with the traversal (children first, every expression
  position of a block) this is what makes the oracle "every instrumentable occurrence of the input has
  its hook in the output" hold.
-/
namespace IastModel.C04

theorem replaceDefault_pushes_nonliteral (e : Node) (asg args : List Node) (sp : Span) (kind : IdentKind) (s : St)
    (h : isLiteralSum e = false) :
    mustReplaceBinary (replaceDefault e asg args sp kind s).1.2.2 = true := by
  unfold replaceDefault getIdentUsed getTemporalIdent
  have hl : e.isLit = false := by
    cases e <;> simp_all [isLiteralSum, Node.isLit]
  simp [hl, run_bind, run_pure, run_map, mustReplaceBinary, exprOrSpread, tempIdent]
  right
  cases kind <;> simp [argExpr, isLiteralSum]

theorem mustReplace_mono (args extra : List Node) (h : mustReplaceBinary args = true) :
    mustReplaceBinary (args ++ extra) = true := by
  simp [mustReplaceBinary] at h ⊢
  obtain ⟨a, ha, hna⟩ := h
  exact Or.inl ⟨a, ha, hna⟩

/-- the template transform always instruments (the visitor calls it only for templates whose
    substitutions are all non-literal) -/
theorem tpl_never_declines (cfg : Config) (exprs quasis : List Node) (sp : Span) (s : St) :
    ((toDdTpl cfg (.tpl exprs quasis sp)) s).1.isSome = true := by
  simp [toDdTpl, run_bind, run_pure]

/-- the specification side: a sum of literals only is never an occurrence to cover, anything else is
    (when `+` is enabled) -/
theorem plus_occurrence_iff (cfg : Config) (l r : Node) (sp : Span) (h : cfg.plusEnabled = true) :
    (ownOcc cfg (.bin "+" l r sp)).isSome = !(litSum l && litSum r) := by
  simp [ownOcc, h]
  cases litSum l <;> cases litSum r <;> simp

/-! ### coverage of `+`, `+=`, template literals and plain method calls through the visitors

`R cfg d sp0 n` counts the `+` / `+=` / template / `recv.m(..)` occurrences that the specification (`ownOcc`, written from the
property text) requires for the hook site `(d, sp0)` in the positions of `n` that the operation visitor
reaches — everything but the operands of `delete`, the substitutions of a template that has a literal
one, nested blocks and arrow functions (those belong to the block visitor) and the inside of an optional
chain that is lowered (`noOpt`: one that reaches a configured method; every other optional chain, `a?.b(x + y)`,
is walked through like any expression).  `cq (qAt d sp0) t` counts the hook calls of `t` named `d` with span `sp0`. -/

/-- the specification's `+` occurrence is what `R` counts for a `+` node -/
theorem required_plus_is_counted (cfg : Config) (op : String) (l r : Node) (sp : Span) (o : Occ)
    (h : ownOcc cfg (.bin op l r sp) = some o) : reqOwn cfg o.dst o.sp (.bin op l r sp) = 1 :=
  reqOwn_spec_bin cfg op l r sp o h

/-- the specification's `+=` occurrence is what `R` counts for a compound assignment -/
theorem required_plus_assign_is_counted (cfg : Config) (op : String) (l r : Node) (sp : Span) (o : Occ)
    (h : ownOcc cfg (.assign op l r sp) = some o) : reqOwn cfg o.dst o.sp (.assign op l r sp) = 1 :=
  reqOwn_spec_assign cfg op l r sp o h

/-- the specification's `recv.m(..)` occurrence (receiver: identifier, call result, parenthesised
    expression, array literal, member access other than `.prototype`, or an allowed literal; `m` not
    `call`/`apply` — those are the `X.prototype.m.call(..)` forms, left to the oracle) is what `R` counts -/
theorem required_method_call_is_counted (cfg : Config) (recv : Node) (m : String) (msp cmsp : Span) (cargs : List Node)
    (sp : Span) (csi : CsiMethod) (hg : cfg.get m = some csi) (hca : isCallOrApply m = false) (hr : recvOK cfg m recv = true) :
    ownOcc cfg (.call (.member recv (.pname m msp) cmsp) cargs sp) = some ⟨csi.dst, sp, "call"⟩ ∧
    reqOwn cfg csi.dst sp (.call (.member recv (.pname m msp) cmsp) cargs sp) = 1 :=
  reqOwn_spec_call cfg recv m msp cmsp cargs sp csi hg hca hr

/-- the specification's template occurrence is what `R` counts for a template node -/
theorem required_template_is_counted (cfg : Config) (exprs qs : List Node) (sp : Span) (o : Occ)
    (h : ownOcc cfg (.tpl exprs qs sp) = some o) : reqOwn cfg o.dst o.sp (.tpl exprs qs sp) = 1 :=
  reqOwn_spec_tpl cfg exprs qs sp o h

/-- the operation visitor instruments every required `+` / `+=` / template / `recv.m(..)` occurrence it reaches, unless it runs
    out of fuel (`fuelOut`, reported by the driver for every input) -/
theorem visit_instruments_required_operations (cfg : Config) (d : String) (sp0 : Span)
    (f : Nat) (root : Bool) (n : Node) (s : St) (h0 : ns n = 0) (ht : targetsOk n = true)
    (hs : s.status ≠ .cancelled) (hfo : (visit cfg f root n s).2.fuelOut = false) :
    R cfg d sp0 n ≤ cq (qAt d sp0) (visit cfg f root n s).1 :=
  (visit_cover cfg (okCfg cfg) (cfgOk_dsts cfg) d sp0 f root n s h0 ht hs hfo).1

/-- **C04 for `+`, `+=`, template literals and `recv.m(..)`, per block** (PARTIAL with respect to the property:
    `X.prototype.m.call|apply(..)`, `recv?.m(..)` and occurrences inside optional chains that are lowered are decided by the coverage oracle, and "every block of
    the file is entered" is not part of the statement).  Every block statement the block visitor enters —
    at any depth, in any state that is not cancelled, the block not mentioning the hook namespace and
    with parser-shaped `+=` targets — comes back, unless the run is cancelled or out of fuel, with at
    least one hook call of the expected name and span for every required occurrence in its statements. -/
theorem entered_block_instruments_required_operations_partial (cfg : Config) (d : String) (sp0 : Span)
    (opFuel f : Nat) (ss : List Node) (sp : Span) (s : St) (hs : s.status ≠ .cancelled)
    (h0 : nsL ss = 0) (hb : badL ss = 0)
    (hfin : (blockVisit cfg opFuel (f + 1) (.block ss sp) s).2.status ≠ .cancelled)
    (hfo : (blockVisit cfg opFuel (f + 1) (.block ss sp) s).2.fuelOut = false) :
    RL cfg d sp0 ss ≤ cq (qAt d sp0) (blockVisit cfg opFuel (f + 1) (.block ss sp) s).1 :=
  block_cover (okCfg cfg) cfg (cfgOk_dsts cfg) d sp0 opFuel f ss sp s hs
    (by rw [good_block]; simp [h0, hb]) hfin hfo

/-! ### the whole file: every block statement, at any depth, is entered -/

theorem cq_insertPrologue_le (q : Node → Bool) (pro : List Node) (p : Node) : cq q p ≤ cq q (insertPrologue pro p) := by
  unfold insertPrologue
  split
  · rename_i k sp ns body vs
    have : cqL q (body.take (variableInsertionIndex body)) + cqL q (body.drop (variableInsertionIndex body)) = cqL q body := by
      conv => rhs; rw [← List.take_append_drop (variableInsertionIndex body) body]
      rw [cqL_append]
    simp only [cq_other, cqL_cons, cq_arr, insertAt, cqL_append]
    omega
  · exact Nat.le_refl _

/-- a block statement occurs in itself, and in every tree that has it as a child (so `1 ≤ cb B p` is what
    "`B` is a block statement of `p`" says; the two lemmas build it up along any path) -/
theorem block_occurs_in_itself (ss : List Node) (sp : Span) : 1 ≤ cb (.block ss sp) (.block ss sp) := by
  rw [cb_block, beq_self]; simp

theorem block_occurs_in_parent (B : Node) (n k : Node) (hk : k ∈ n.kids) (h : 1 ≤ cb B k) : 1 ≤ cb B n := by
  rw [cb_eq]
  have : cb B k ≤ cbL B n.kids := by
    generalize n.kids = l at hk
    induction l with
    | nil => cases hk
    | cons x xs ih =>
      simp only [cbL_cons]
      cases hk with
      | head => omega
      | tail _ h' => have := ih h'; omega
  omega

/-- **C04 for `+`, `+=`, template literals and `recv.m(..)`, for every block statement of the file**
    (PARTIAL with respect to the property: `X.prototype.m.call|apply(..)`, `recv?.m(..)` and occurrences
    inside optional chains that are lowered are decided by the coverage oracle; the bodies of arrow functions
    written without braces — `x => x + y` becomes a block only during the rewrite — have their own theorem
    below).  For every
    configuration, fuel and program that does not mention the hook namespace and has parser-shaped `+=`
    targets: unless the rewrite is refused or the model runs out of fuel, **every** block statement `B` of
    the program — function bodies, bare blocks, loop / `if` / `try` bodies, class method bodies, closures
    nested at any depth inside other blocks, expressions or declarations — is entered, and the output has
    at least one hook call of the expected name and span for every operation required in its statements
    (`required_plus_is_counted` … `required_template_is_counted`). -/
theorem every_block_statement_is_instrumented_partial (cfg : Config) (fuel : Nat) (p : Node)
    (h0 : ns p = 0) (ht : targetsOk p = true) (hnb : isBlockNode p = false)
    (hnc : (transformProgram cfg fuel p).status ≠ .cancelled)
    (hfo : (transformProgram cfg fuel p).fuelOut = false)
    (B : Node) (hB : 1 ≤ cb B p) (d : String) (sp0 : Span) :
    RL cfg d sp0 (stmtsOf B) ≤ cq (qAt d sp0) (transformProgram cfg fuel p).out := by
  unfold transformProgram at hnc hfo ⊢
  simp only [StateT.run] at hnc hfo ⊢
  by_cases hr : hasReserved (tempPrefix cfg.localVarPrefix) p = true
  · exact absurd (programVisit_reserved cfg _ fuel p {} hr) hnc
  · simp only [Bool.not_eq_true] at hr
    simp only [programVisit_eq cfg _ fuel p {} hr] at hnc hfo ⊢
    have hs0 : StOk ({} : St) := by intro h; cases h
    have hb0 : bad p = 0 := (bad_zero_iff p).mpr ht
    have hg : goodW (okCfg cfg) true p = true := good_of_ns0 (okCfg cfg) true p h0 hb0
    have key := blockVisit_reach (okCfg cfg) cfg (cfgOk_dsts cfg) d sp0 B fuel (fuel + 1) p {} hs0 hg
    rw [blockVisit_generic cfg fuel fuel p hnb] at key
    have := key hnc hfo hB
    split
    · exact Nat.le_trans this (cq_insertPrologue_le _ _ _)
    · exact this

/-- an optional chain that is not lowered is walked through: what is required in `a?.b(x + y)` includes what
    is required in its arguments -/
theorem required_inside_unlowered_chain (cfg : Config) (d : String) (sp0 : Span) (o : Bool) (b : Node) (sp : Span)
    (h : noOpt cfg (.optChain o b sp) = true) : R cfg d sp0 (.optChain o b sp) = R cfg d sp0 b := by
  rw [R_eq]; simp [reqOwn, visitedKids, h]

/-! ### arrow functions written without braces -/

/-- how `1 ≤ va cfg A n` ("the arrow function `A` sits at a position of `n` the operation visitor reaches")
    is built: an expression-bodied arrow function is reached in itself, and in every node that has it under
    a visited child (`visitedKids`: not the operand of `delete`, not a template with a literal substitution,
    not an optional chain that is lowered, not a nested block, not another arrow function) -/
theorem arrow_reached_in_itself (cfg : Config) (ps : List Node) (e : Node) (at' : String) (sp : Span)
    (he : isBlockNode e = false) : 1 ≤ va cfg (.arrow ps e at' sp) (.arrow ps e at' sp) := by
  rw [va_eq, beq_self]; simp [isExprArrow, he]

theorem arrow_reached_in_parent (cfg : Config) (A n k : Node) (hk : k ∈ visitedKids cfg n) (h : 1 ≤ va cfg A k) :
    1 ≤ va cfg A n := by
  rw [va_eq]
  have : va cfg A k ≤ vaL cfg A (visitedKids cfg n) := by
    generalize visitedKids cfg n = l at hk
    induction l with
    | nil => cases hk
    | cons x xs ih =>
      simp only [vaL_cons]
      cases hk with
      | head => omega
      | tail _ h' => have := ih h'; omega
  omega

theorem arrow_reached_in_statements (cfg : Config) (A k : Node) (ss : List Node) (hk : k ∈ ss) (h : 1 ≤ va cfg A k) :
    1 ≤ vaL cfg A ss := by
  induction ss with
  | nil => cases hk
  | cons x xs ih =>
    simp only [vaL_cons]
    cases hk with
    | head => omega
    | tail _ h' => have := ih h'; omega

/-- what is required in `{ return e }` is what is required in `e` -/
theorem required_in_wrapped_body (cfg : Config) (d : String) (sp0 : Span) (ps : List Node) (e : Node) (at' : String) (sp : Span) :
    RL cfg d sp0 (stmtsOf (pseudo (.arrow ps e at' sp))) = R cfg d sp0 e := by
  simp only [pseudo, stmtsOf, returnStmt, RL_cons, RL_nil, Nat.add_zero]
  rw [R_eq]
  simp [reqOwn, visitedKids, Node.kids]

/-- **C04 for the bodies of arrow functions written without braces** (`x => x + y`, `v => v.trim()`), PARTIAL in
    the same way as `every_block_statement_is_instrumented_partial`.  For every block statement `B1` of the
    program and every expression-bodied arrow function `A = (ps) => e` at a position of one of `B1`'s
    statements that the operation visitor reaches (so: not in the operand of `delete`, not inside a template
    literal that has a literal substitution, not inside an optional chain that is lowered or another arrow function — the
    documented exclusions, and the ones this theorem leaves to the oracle), unless the rewrite is refused
    or the model runs out of fuel: the body is wrapped into a block, that block is entered, and the output
    has a hook call of the expected name and span for every operation required in `e`. -/
theorem every_reached_arrow_body_is_instrumented_partial (cfg : Config) (fuel : Nat) (p : Node)
    (h0 : ns p = 0) (ht : targetsOk p = true) (hnb : isBlockNode p = false)
    (hnc : (transformProgram cfg fuel p).status ≠ .cancelled)
    (hfo : (transformProgram cfg fuel p).fuelOut = false)
    (B1 : Node) (hB : 1 ≤ cb B1 p) (ps : List Node) (e : Node) (at' : String) (asp : Span)
    (hA : 1 ≤ vaL cfg (.arrow ps e at' asp) (stmtsOf B1)) (d : String) (sp0 : Span) :
    R cfg d sp0 e ≤ cq (qAt d sp0) (transformProgram cfg fuel p).out := by
  rw [← required_in_wrapped_body cfg d sp0 ps e at' asp]
  unfold transformProgram at hnc hfo ⊢
  simp only [StateT.run] at hnc hfo ⊢
  by_cases hr : hasReserved (tempPrefix cfg.localVarPrefix) p = true
  · exact absurd (programVisit_reserved cfg _ fuel p {} hr) hnc
  · simp only [Bool.not_eq_true] at hr
    simp only [programVisit_eq cfg _ fuel p {} hr] at hnc hfo ⊢
    have hs0 : StOk ({} : St) := by intro h; cases h
    have hb0 : bad p = 0 := (bad_zero_iff p).mpr ht
    have hg : goodW (okCfg cfg) true p = true := good_of_ns0 (okCfg cfg) true p h0 hb0
    have key := blockVisit_reach_arrow (okCfg cfg) cfg (cfgOk_dsts cfg) d sp0 B1 (.arrow ps e at' asp) fuel hA (fuel + 1) p {} hs0 hg
    rw [blockVisit_generic cfg fuel fuel p hnb] at key
    have := key hnc hfo hB
    split
    · exact Nat.le_trans this (cq_insertPrologue_le _ _ _)
    · exact this

/-- **chains of arrow functions written without braces** (`xs.map(x => x.ys.map(y => y + z))`): `EnteredVia cfg d sp0
    B c` says that standing on the block `B` guarantees `c` hook calls of the site — what `B`'s own statements
    require (`EnteredVia.self`), or what is guaranteed by the wrapped body of an arrow function reached from
    `B`'s statements (`EnteredVia.arrow`, any number of times).  For every block statement `B` of the
    program, at any depth, that guarantee is met by the output.  The two theorems above are the chains of
    length zero and one. -/
theorem every_arrow_chain_is_instrumented_partial (cfg : Config) (fuel : Nat) (p : Node)
    (h0 : ns p = 0) (ht : targetsOk p = true) (hnb : isBlockNode p = false)
    (hnc : (transformProgram cfg fuel p).status ≠ .cancelled)
    (hfo : (transformProgram cfg fuel p).fuelOut = false)
    (B : Node) (hB : 1 ≤ cb B p) (d : String) (sp0 : Span) (c : Nat) (hv : EnteredVia cfg d sp0 B c) :
    c ≤ cq (qAt d sp0) (transformProgram cfg fuel p).out := by
  unfold transformProgram at hnc hfo ⊢
  simp only [StateT.run] at hnc hfo ⊢
  by_cases hr : hasReserved (tempPrefix cfg.localVarPrefix) p = true
  · exact absurd (programVisit_reserved cfg _ fuel p {} hr) hnc
  · simp only [Bool.not_eq_true] at hr
    simp only [programVisit_eq cfg _ fuel p {} hr] at hnc hfo ⊢
    have hs0 : StOk ({} : St) := by intro h; cases h
    have hb0 : bad p = 0 := (bad_zero_iff p).mpr ht
    have hg : goodW (okCfg cfg) true p = true := good_of_ns0 (okCfg cfg) true p h0 hb0
    have key := blockVisit_reach_via (okCfg cfg) cfg (cfgOk_dsts cfg) d sp0 B fuel c hv (fuel + 1) p {} hs0 hg
    rw [blockVisit_generic cfg fuel fuel p hnb] at key
    have := key hnc hfo hB
    split
    · exact Nat.le_trans this (cq_insertPrologue_le _ _ _)
    · exact this

/-! ### the same conclusions in the vocabulary of the coverage oracle

`uncovered` (the oracle that runs on the implementation's real output) reports an occurrence when
`(name, span)` is not among `hookSites out`; the two corollaries below say that for the occurrences the
theorems count this never happens on the model's output. -/

theorem required_operation_of_a_block_has_its_hook_site_partial (cfg : Config) (fuel : Nat) (p : Node)
    (h0 : ns p = 0) (ht : targetsOk p = true) (hnb : isBlockNode p = false)
    (hnc : (transformProgram cfg fuel p).status ≠ .cancelled)
    (hfo : (transformProgram cfg fuel p).fuelOut = false)
    (B : Node) (hB : 1 ≤ cb B p) (d : String) (sp0 : Span) (hreq : 1 ≤ RL cfg d sp0 (stmtsOf B)) :
    (d, sp0) ∈ hookSites (transformProgram cfg fuel p).out :=
  hookSite_of_cq d sp0 _ (Nat.le_trans hreq
    (every_block_statement_is_instrumented_partial cfg fuel p h0 ht hnb hnc hfo B hB d sp0))

theorem required_operation_of_an_arrow_body_has_its_hook_site_partial (cfg : Config) (fuel : Nat) (p : Node)
    (h0 : ns p = 0) (ht : targetsOk p = true) (hnb : isBlockNode p = false)
    (hnc : (transformProgram cfg fuel p).status ≠ .cancelled)
    (hfo : (transformProgram cfg fuel p).fuelOut = false)
    (B1 : Node) (hB : 1 ≤ cb B1 p) (ps : List Node) (e : Node) (at' : String) (asp : Span)
    (hA : 1 ≤ vaL cfg (.arrow ps e at' asp) (stmtsOf B1)) (d : String) (sp0 : Span) (hreq : 1 ≤ R cfg d sp0 e) :
    (d, sp0) ∈ hookSites (transformProgram cfg fuel p).out :=
  hookSite_of_cq d sp0 _ (Nat.le_trans hreq
    (every_reached_arrow_body_is_instrumented_partial cfg fuel p h0 ht hnb hnc hfo B1 hB ps e at' asp hA d sp0))

/-- **the scope of the theorems, decided**: `inScope cfg p d sp0` searches the block statements of the
    program, and the chains of arrow functions reached from their statements, for one that requires the site
    `(d, sp0)`.  Whenever it answers `true` the hook site is in the output.  The driver evaluates `inScope`
    on every occurrence the coverage oracle demands of every input and reports both numbers, so each run
    says how much of the oracle's demand a theorem covers as well. -/
theorem in_scope_occurrence_has_its_hook_site_partial (cfg : Config) (fuel : Nat) (p : Node)
    (h0 : ns p = 0) (ht : targetsOk p = true) (hnb : isBlockNode p = false)
    (hnc : (transformProgram cfg fuel p).status ≠ .cancelled)
    (hfo : (transformProgram cfg fuel p).fuelOut = false)
    (d : String) (sp0 : Span) (hin : inScope cfg p d sp0 = true) :
    (d, sp0) ∈ hookSites (transformProgram cfg fuel p).out := by
  simp only [inScope, List.any_eq_true] at hin
  obtain ⟨B, hB, h⟩ := hin
  obtain ⟨c, hc, hv⟩ := viaScope_sound cfg d sp0 _ B h
  exact hookSite_of_cq d sp0 _ (Nat.le_trans hc
    (every_arrow_chain_is_instrumented_partial cfg fuel p h0 ht hnb hnc hfo B (cb_of_mem_blocksOf p B hB) d sp0 c hv))

/-! non-vacuity: a function declaration whose body calls `g(function () { c + d })` — the inner function
    body is a block statement of the program, two blocks and one call argument deep -/
section Example
open Node
private def sp1 : Span := ⟨1, 2⟩
private def inner : Node := .block [.exprStmt (.bin "+" (.ident (.user "c") sp1) (.ident (.user "d") sp1) sp1) sp1] sp1
private def fe : Node := .other "FunctionExpression" sp1 ["body"] [inner]
private def outer : Node := .block [.other "ReturnStatement" sp1 ["argument"] [.call (.ident (.user "g") sp1) [.arg none fe] sp1]] sp1
private def prog : Node := .other "Script" sp1 ["body"] [.arr [.other "FunctionDeclaration" sp1 ["body"] [outer]]]
example : ns prog = 0 := by
  simp [prog, outer, inner, fe, ns_eq, mentionsNs, kids]
  decide
example : targetsOk prog = true := by
  apply (bad_zero_iff _).mp
  simp [prog, outer, inner, fe, bad_eq, assignTargetOk, kids]
example : isBlockNode prog = false := rfl
example : 1 ≤ cb inner prog := by
  apply block_occurs_in_parent _ _ (.arr [.other "FunctionDeclaration" sp1 ["body"] [outer]]) (by simp [prog, kids])
  apply block_occurs_in_parent _ _ (.other "FunctionDeclaration" sp1 ["body"] [outer]) (by simp [kids])
  apply block_occurs_in_parent _ _ outer (by simp [kids])
  apply block_occurs_in_parent _ _ (.other "ReturnStatement" sp1 ["argument"] [.call (.ident (.user "g") sp1) [.arg none fe] sp1]) (by simp [outer, kids])
  apply block_occurs_in_parent _ _ (.call (.ident (.user "g") sp1) [.arg none fe] sp1) (by simp [kids])
  apply block_occurs_in_parent _ _ (.arg none fe) (by simp [kids])
  apply block_occurs_in_parent _ _ fe (by simp [kids])
  apply block_occurs_in_parent _ _ inner (by simp [fe, kids])
  exact block_occurs_in_itself _ _
/-- `function(){ return g(x => x + y) }`: the arrow is reached in the function body's `return` statement -/
private def arrowA : Node := .arrow [.ident (.user "x") sp1] (.bin "+" (.ident (.user "x") sp1) (.ident (.user "y") sp1) sp1) "" sp1
private def retA : Node := .other "ReturnStatement" sp1 ["argument"] [.call (.ident (.user "g") sp1) [.arg none arrowA] sp1]
example (cfg : Config) : 1 ≤ vaL cfg arrowA (stmtsOf (.block [retA] sp1)) := by
  apply arrow_reached_in_statements cfg _ retA _ (by simp [stmtsOf])
  apply arrow_reached_in_parent cfg _ _ (.call (.ident (.user "g") sp1) [.arg none arrowA] sp1) (by simp [retA, visitedKids, kids])
  apply arrow_reached_in_parent cfg _ _ (.arg none arrowA) (by simp [visitedKids, kids])
  apply arrow_reached_in_parent cfg _ _ arrowA (by simp [visitedKids, kids])
  exact arrow_reached_in_itself cfg _ _ _ _ rfl
end Example

end IastModel.C04

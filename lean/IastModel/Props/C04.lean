import IastModel.Rewriter.Visitor
import IastModel.Spec.Coverage
import IastModel.Lemmas.Monad
/-
  C04 — every enabled operation in blocks is instrumented.  Local coverage lemmas: the `+` transform
  never declines a sum that has an operand which is neither a literal sum nor a `+` chain, and the
  template transform never declines; together with the traversal (children first, every expression
  position of a block) this is what makes the oracle "every instrumentable occurrence of the input has
  its hook in the output" hold.
-/
namespace IastModel.C04

theorem replaceDefault_pushes_nonliteral (e : Node) (asg args : List Node) (sp : Span) (kind : IdentKind) (s : St)
    (h : isLiteralSum e = false) :
    mustReplaceBinary (replaceDefault e asg args sp kind s).1.2.2 = true := by
  unfold replaceDefault getIdentUsed getTemporalIdent
  have hl : e.isLit = false := by
    cases e <;> simp_all [isLiteralSum, Node.isLit]
  simp [hl, run_bind, run_pure, run_map, mustReplaceBinary, exprOrSpread, tempIdent]
  right
  cases kind <;> simp [argExpr, isLiteralSum]

theorem mustReplace_mono (args extra : List Node) (h : mustReplaceBinary args = true) :
    mustReplaceBinary (args ++ extra) = true := by
  simp [mustReplaceBinary] at h ⊢
  obtain ⟨a, ha, hna⟩ := h
  exact Or.inl ⟨a, ha, hna⟩

/-- the template transform always instruments (the visitor calls it only for templates whose
    substitutions are all non-literal) -/
theorem tpl_never_declines (cfg : Config) (exprs quasis : List Node) (sp : Span) (s : St) :
    ((toDdTpl cfg (.tpl exprs quasis sp)) s).1.isSome = true := by
  simp [toDdTpl, run_bind, run_pure]

/-- the specification side: a sum of literals only is never an occurrence to cover, anything else is
    (when `+` is enabled) -/
theorem plus_occurrence_iff (cfg : Config) (l r : Node) (sp : Span) (h : cfg.plusEnabled = true) :
    (ownOcc cfg (.bin "+" l r sp)).isSome = !(litSum l && litSum r) := by
  simp [ownOcc, h]
  cases litSum l <;> cases litSum r <;> simp

end IastModel.C04

import IastModel.Spec.Codec
import IastModel.Lemmas.FindEntryGlb
/-
  C11 — stack traces report original file and line.  Model of the module-level cache of
  js/source-map/index.js (`rewrittenSourceMapsCache`, a JavaScript `Map`), of `getPathAndLine` and of the
  1-based/0-based conversions, over the verified lookup of `Spec/Codec.lean`.
-/
namespace IastModel.C11
open Codec

/-- `rewrittenSourceMapsCache`: file name ↦ parsed map of the content cached last -/
abbrev Cache := List (String × List Token)

def Cache.set (c : Cache) (file : String) (m : List Token) : Cache := (file, m) :: c.filter (·.1 != file)
def Cache.get (c : Cache) (file : String) : Option (List Token) := (c.find? (·.1 == file)).map (·.2)

/-- one `cacheRewrittenSourceMap(file, content)` per element -/
def Cache.run (c : Cache) : List (String × List Token) → Cache
  | [] => c
  | (f, m) :: ops => (c.set f m).run ops

theorem get_set_same (c : Cache) (f : String) (m : List Token) : (c.set f m).get f = some m := by
  simp [Cache.set, Cache.get]

theorem find_filter_other (es : Cache) (f g : String) (h : g ≠ f) :
    (es.filter (·.1 != f)).find? (·.1 == g) = es.find? (·.1 == g) := by
  induction es with
  | nil => rfl
  | cons e es ih =>
    by_cases he : e.1 = f
    · have hne : (e.1 != f) = false := by simp [he]
      have hg : (e.1 == g) = false := by simp [he, Ne.symm h]
      rw [List.filter_cons, hne]
      simp only [Bool.false_eq_true, if_false, List.find?_cons, hg, ih]
    · have hne : (e.1 != f) = true := by simp [he]
      rw [List.filter_cons, hne]
      simp only [if_true, List.find?_cons, ih]

theorem get_set_other (c : Cache) (f g : String) (m : List Token) (h : g ≠ f) :
    (c.set f m).get g = c.get g := by
  have h1 : (f == g) = false := by simp [Ne.symm h]
  simp only [Cache.set, Cache.get, List.find?_cons, h1]
  rw [find_filter_other c f g h]

theorem run_preserves (f : String) (m : List Token) (rest : List (String × List Token))
    (hrest : ∀ op ∈ rest, op.1 ≠ f) : ∀ c : Cache, c.get f = some m → (c.run rest).get f = some m := by
  induction rest with
  | nil => intro c h; simpa [Cache.run] using h
  | cons op rest ih =>
    obtain ⟨g, mg⟩ := op
    intro c h
    simp only [Cache.run]
    apply ih (fun o ho => hrest o (by simp [ho]))
    rw [get_set_other _ _ _ _ (Ne.symm (hrest (g, mg) (by simp)))]
    exact h

/-- C11 (histories): after any sequence of caching operations, the map used for a file is the one of
    the most recent operation on that file -/
theorem last_write_wins (c : Cache) (ops : List (String × List Token)) (f : String) (m : List Token)
    (rest : List (String × List Token)) (hrest : ∀ op ∈ rest, op.1 ≠ f) :
    (c.run (ops ++ (f, m) :: rest)).get f = some m := by
  induction ops generalizing c with
  | nil =>
    simp only [List.nil_append, Cache.run]
    exact run_preserves f m rest hrest _ (get_set_same c f m)
  | cons op ops ih =>
    obtain ⟨g, mg⟩ := op
    simp only [List.cons_append, Cache.run]
    exact ih _

/-- `getPathAndLine`: the position reported for (line, column), both 1-based in and out -/
def getPathAndLine (m : Option (List Token)) (line col : Nat) : Option (Nat × Nat × Nat) :=
  match m with
  | none => none
  | some toks =>
    match lookup toks (line - 1) (col - 1) with
    | some { src := some (si, l, c), .. } => some (si, l + 1, c + 1)
    | _ => none

/-- a file the cache knows nothing about is left alone -/
theorem unknown_file_unchanged (line col : Nat) : getPathAndLine none line col = none := rfl

/-- the translation is the verified lookup with the 1-based/0-based shifts -/
theorem known_file_translates (toks : List Token) (line col : Nat) (t : Token) (si l c : Nat)
    (h : lookup toks (line - 1) (col - 1) = some t) (hs : t.src = some (si, l, c)) :
    getPathAndLine (some toks) line col = some (si, l + 1, c + 1) := by
  cases t with
  | mk gl gc src name =>
    simp only at hs
    subst hs
    simp [getPathAndLine, h]


/-! ### the binary search of `SourceMap.findEntry` -/

/-- **C11 (lookup).**  On mappings sorted by generated position (what `_parseMappingPayload` leaves),
    the binary search of `findEntry` returns the last mapping at or before the requested position —
    the greatest lower bound — and `{}` exactly when every mapping lies after it; for every list of
    mappings and every position. -/
theorem findEntry_is_greatest_lower_bound (ms : List FindEntry.Pos) (pos : FindEntry.Pos) (hs : FindEntry.Sorted ms) :
    match FindEntry.findEntryIdx ms pos with
    | some i => i < ms.length ∧ FindEntry.posLt pos (ms.getD i (0, 0)) = false ∧
        ∀ j, i < j → j < ms.length → FindEntry.posLt pos (ms.getD j (0, 0)) = true
    | none => ∀ j, j < ms.length → FindEntry.posLt pos (ms.getD j (0, 0)) = true :=
  FindEntry.findEntry_glb ms pos hs

/-- the same, against the specification `Codec.lookup` used by the C09 / C10 oracles and by the C11
    correspondence as the meaning of "this position resolves to" -/
theorem findEntry_is_lookup (toks : List Codec.Token) (line col : Nat)
    (hs : FindEntry.Sorted (toks.map fun t => (t.genLine, t.genCol))) :
    Codec.lookup toks line col =
      (FindEntry.findEntryIdx (toks.map fun t => (t.genLine, t.genCol)) (line, col)).bind (fun i => toks[i]?) :=
  FindEntry.findEntry_eq_lookup toks line col hs

end IastModel.C11

import IastModel.Rewriter.Rewrite
import IastModel.Spec.Scope
import IastModel.Lemmas.Monad
import IastModel.Lemmas.TempsBlock
import IastModel.Props.C02
import IastModel.Lemmas.ErTemps
/-
  C06 — temporaries are hygienic.  Proved here: (1) a file that mentions the reserved prefix in any
  identifier is refused, untouched, with the documented reason, before anything is injected; (2) the
  injected declaration declares exactly the temporaries registered for the block, as the scope checker
  reads them back; (3) the identifier provider hands out consecutive indices and registers each once.
-/
namespace IastModel.C06

/-- refusal: reserved prefix anywhere ⇒ cancelled with "Variable name duplicated", tree untouched -/
theorem refused_when_reserved (cfg : Config) (pro : List Node) (fuel : Nat) (p : Node) (s : St)
    (h : hasReserved (tempPrefix cfg.localVarPrefix) p = true) :
    let r := programVisit cfg pro fuel p s
    r.1 = p ∧ r.2.status = .cancelled ∧ r.2.msg = some "Variable name duplicated" := by
  simp [programVisit, h, run_bind, run_pure, cancelVisit, run_modify]

/-- a cancelled visit injects nothing in any block reached afterwards -/
theorem cancelled_block_untouched (cfg : Config) (opFuel f : Nat) (stmts : List Node) (sp : Span) (s : St)
    (h : s.status = .cancelled) :
    blockVisit cfg opFuel (f + 1) (.block stmts sp) s = (.block stmts sp, s) := by
  simp [blockVisit, run_bind, run_get, run_pure, h]

/-- the declaration lists exactly the registered temporaries, in order -/
theorem letDecl_declares (ids : List Nat) (sp : Span) (h : ids ≠ []) :
    injectedLet? (letDecl ids sp) = some ids := by
  unfold letDecl injectedLet?
  simp only [List.map_map]
  have hm : (List.map (declaratorTemp? ∘ fun n => Node.other "VariableDeclarator" sp ["id", "init", "definite"]
      [tempIdent n, Node.atom "null", Node.atom "false"]) ids) = ids.map some := by
    apply List.map_congr_left
    intro n _
    rfl
  rw [hm]
  have h1 : (ids.map some).isEmpty = false := by cases ids <;> simp_all
  have h2 : (ids.map some).all Option.isSome = true := by simp
  simp [h1, h2, List.filterMap_map]

/-- `next_ident`: consecutive indices -/
theorem nextIdent_consecutive (s : St) :
    (nextIdent s).1 = s.counter ∧ (nextIdent s).2.counter = s.counter + 1 ∧ (nextIdent s).2.idents = s.idents := by
  simp [nextIdent, modifyGet, MonadStateOf.modifyGet, StateT.modifyGet, pure, Pure.pure]

/-- `register_ident`: once per index -/
theorem registerIdent_once (n : Nat) (s : St) :
    n ∈ (registerIdent n s).2.idents ∧ (s.idents.Nodup → (registerIdent n s).2.idents.Nodup) ∧
    (registerIdent n s).2.counter = s.counter := by
  simp only [registerIdent, run_modify]
  by_cases h : s.idents.contains n = true
  · simp only [h, if_true]
    exact ⟨by simpa using h, id, trivial⟩
  · simp only [h, Bool.false_eq_true, if_false]
    refine ⟨by simp, ?_, trivial⟩
    intro hn
    rw [List.nodup_append]
    refine ⟨hn, by simp, ?_⟩
    intro a ha b hb
    simp at hb
    subst hb
    intro hab
    subst hab
    simp at h
    exact h ha

/-- every temporary handed out is registered for declaration -/
theorem getTemporalIdent_registered (operand : Node) (asg : List Node) (sp : Span) (k : IdentKind) (s : St)
    (n : Nat) (h : (getTemporalIdent operand asg sp k s).1.1 = some n) :
    n = s.counter ∧ n ∈ (getTemporalIdent operand asg sp k s).2.idents := by
  unfold getTemporalIdent at h ⊢
  by_cases hl : operand.isLit = true
  · simp [hl, run_pure] at h
  · simp only [hl, Bool.false_eq_true, if_false, run_bind, run_pure] at h ⊢
    have h1 := nextIdent_consecutive s
    simp only [Option.some.injEq] at h
    rw [h1.1] at h
    subst h
    refine ⟨rfl, ?_⟩
    have := (registerIdent_once s.counter (nextIdent s).2).1
    rw [h1.1]
    exact this


/-! ### declarations, for the whole pipeline -/

/-- **C06 (no injected name is left undeclared).**  For every configuration, fuel and program that
    contains no identifier of the reserved temporary form (such a program is refused, see
    `refused_when_reserved`; the driver checks the hypothesis on every input), unless the rewrite is
    refused: every temporary of the output that occurs in the own region of a block statement (nested
    blocks excluded) is declared by an injected `let` among that block's own statements, and no
    temporary occurs outside all block statements.  (`declOK`, `Lemmas/TempsBlock.lean`.) -/
theorem temporaries_declared (cfg : Config) (fuel : Nat) (p : Node) (h0 : nt p = 0)
    (hnc : (transformProgram cfg fuel p).status ≠ .cancelled) :
    declOK [] (transformProgram cfg fuel p).out = true :=
  temporaries_declared_master cfg fuel p h0 hnc

/-- the operation visitor only ever uses temporaries it has registered for declaration: from a tree
    that is good for the registered set, the result is good for the (larger) registered set -/
theorem visit_uses_registered_temporaries (cfg : Config) (f : Nat) (root : Bool) (n : Node) (s : St)
    (h : tgood s.idents n = true) :
    tgood (visit cfg f root n s).2.idents (visit cfg f root n s).1 = true ∧
    ∀ k ∈ s.idents, k ∈ (visit cfg f root n s).2.idents :=
  visit_T cfg f root n s h

/-- **C06, "assigned before it is read" (partial: programs none of whose optional chains is lowered).**  Erasing the
    instrumentation resolves every read of a temporary through the environment built from the
    assignments met before it, in evaluation order (sequence elements left to right, the hook's first
    argument after the hoisted operands, a block's bindings not leaving the block).  For every
    configuration, fuel and well-formed source program with no lowered optional chain whose rewrite is reported
    modified, no temporary is left in the erased output: every read was preceded by an assignment of the same
    temporary in the same block.  (Corollary of `C02.erasing_the_instrumentation_gives_back_the_input_partial`.) -/
theorem every_temporary_read_is_assigned_before_partial (cfg : Config) (fuel : Nat) (p : Node)
    (hs : srcOk p = true) (hno : noOpt cfg p = true) (hnb : isBlockNode p = false)
    (hm : (transformProgram cfg fuel p).status = .modified) :
    hasTemp (eraseProgram (prologue cfg.dsts) (transformProgram cfg fuel p).out) = false := by
  have h := (C02.erasing_the_instrumentation_gives_back_the_input_partial cfg fuel p hs hno hnb hm).1
  rw [hasTemp_eq, ← noTemps_strip, h, noTemps_strip, noTemps_src p hs]
  rfl

end IastModel.C06

import IastModel.Rewriter.Rewrite
import IastModel.Rewriter.Literals
/-
  C16 — rewriting is deterministic and independent of earlier calls.
  Model of the `Rewriter` object of src/lib_wasm.rs: the only field is the configuration; everything
  else (compiler, source map, comments, status, telemetry, identifier provider) is created inside the
  call, which in the model is the fact that `rewriteCall` builds all of it from its arguments.
-/
namespace IastModel.C16

structure Call where
  program : Node          -- the parse of the source text (a function of the text: swc contract)
  file : String
deriving Inhabited

structure CallResult where
  result : ModelResult
  metrics : Metrics
  literals : Option LitMap

/-- one `rewrite(code, file)` call on a rewriter holding `cfg` -/
def rewriteCall (cfg : Config) (c : Call) : CallResult :=
  let r := transformProgram cfg (defaultFuel c.program) c.program
  { result := r, metrics := getMetrics cfg r c.file,
    literals := if cfg.literals then some (collectLits r.out []) else none }

/-- the rewriter object: state = configuration -/
structure Rewriter where
  config : Config

def Rewriter.step (r : Rewriter) (c : Call) : Rewriter × CallResult := (r, rewriteCall r.config c)

/-- run a history of calls, collecting results -/
def Rewriter.run (r : Rewriter) : List Call → Rewriter × List CallResult
  | [] => (r, [])
  | c :: cs =>
    let (r1, x) := r.step c
    let (r2, xs) := r1.run cs
    (r2, x :: xs)

/-- no call changes the rewriter -/
theorem step_state (r : Rewriter) (c : Call) : (r.step c).1 = r := rfl

theorem run_state (r : Rewriter) (h : List Call) : (r.run h).1 = r := by
  induction h generalizing r with
  | nil => rfl
  | cons c cs ih => simp [Rewriter.run, Rewriter.step, ih]

/-- the results of a history are the results of its calls taken one by one on a fresh rewriter -/
theorem run_results (r : Rewriter) (h : List Call) :
    (r.run h).2 = h.map (rewriteCall r.config) := by
  induction h generalizing r with
  | nil => rfl
  | cons c cs ih => simp [Rewriter.run, Rewriter.step, ih]

/-- C16: after any history, a call gives what the same call gives on a fresh rewriter with the same
    configuration — whatever the earlier calls were (successful, not modified, cancelled) -/
theorem history_independent (cfg : Config) (h : List Call) (c : Call) :
    ((Rewriter.mk cfg).run (h ++ [c])).2.getLast? = some (((Rewriter.mk cfg).step c).2) := by
  rw [run_results]
  simp [Rewriter.step]

/-- two rewriters built from the same configuration are interchangeable at every point of a history -/
theorem instances_interchangeable (cfg : Config) (h1 h2 : List Call) (c : Call) :
    ((Rewriter.mk cfg).run (h1 ++ [c])).2.getLast? = ((Rewriter.mk cfg).run (h2 ++ [c])).2.getLast? := by
  rw [history_independent, history_independent]

/-- non-vacuity: a history with three calls -/
example (cfg : Config) (a b c : Call) :
    (((Rewriter.mk cfg).run [a, b, c]).2.map (·.metrics.file)) = [a.file, b.file, c.file] := by
  simp [Rewriter.run, Rewriter.step, rewriteCall, getMetrics]

end IastModel.C16

import IastModel.Lemmas.Master
import IastModel.Config
/-
  C05 — configuration honoured: the defaulting part (src/lib_wasm.rs `to_config`,
  `TelemetryVerbosity::parse`, `CsiMethod::new`), stated against the *documented* values and proved
  about the definitions regenerated from the source.
-/
namespace IastModel.C05

/-- the documented defaults: no chaining, no comments, literals on, telemetry INFORMATION, no methods,
    the prefix chosen by the random generator -/
theorem defaults (rnd : String) :
    let c := toConfig { chainSourceMap := none, comments := none, localVarPrefix := none, csiMethods := none,
                        telemetryVerbosity := none, literals := none } rnd
    c.chainSourceMap = false ∧ c.printComments = false ∧ c.literals = true ∧
    c.verbosity = Verbosity.information ∧ c.localVarPrefix = rnd ∧ c.methods = [] := by
  simp [toConfig, parseVerbosity, Generated.defaultChainSourceMap, Generated.defaultComments,
    Generated.defaultLiterals, Generated.verbosityAbsent, Verbosity.ofName]

/-- an explicit prefix is used as given -/
theorem prefix_explicit (r : RawConfig) (p rnd : String) (h : r.localVarPrefix = some p) :
    (toConfig r rnd).localVarPrefix = p := by simp [toConfig, h]

/-- replacement name defaults to the source name; flags default to false -/
theorem method_defaults (src : String) :
    CsiMethod.ofRaw { src := src, dst := none, operator := none, allowedWithoutCallee := none }
      = { src := src, dst := src, operator := false, allowedWithoutCallee := false } := by
  simp [CsiMethod.ofRaw, Generated.defaultOperator, Generated.defaultAllowedWithoutCallee]

/-- verbosity parsing is total and case-insensitive, with INFORMATION for anything unknown -/
theorem verbosity_known :
    parseVerbosity (some "OFF") = .off ∧ parseVerbosity (some "off") = .off ∧
    parseVerbosity (some "MANDATORY") = .mandatory ∧ parseVerbosity (some "INFORMATION") = .information ∧
    parseVerbosity (some "DEBUG") = .debug ∧ parseVerbosity (some "Debug") = .debug := by
  decide +kernel

theorem verbosity_fallback (s : String)
    (h : Generated.verbosityTable.find? (fun p => p.1 == s.toUpper) = none) :
    parseVerbosity (some s) = .information := by
  simp [parseVerbosity, h, Generated.verbosityFallback, Verbosity.ofName]

/-- the random prefix: `rnd_string(6)` draws 6 characters from the lowercase alphabet.  Model: the
    draws are indices into the alphabet (what `fastrand::usize(0..chars.len())` returns). -/
def rndString (draws : List (Fin 26)) : String :=
  String.ofList (draws.map fun i => (Generated.rndAlphabet.toList)[i.val]!)

theorem alphabet_is_lowercase : Generated.rndAlphabet.toList.all Char.isLower = true ∧
    Generated.rndAlphabet.toList.length = 26 ∧ Generated.rndPrefixLength = 6 := by decide

/-- `get` only ever returns a configured, non-operator entry with that source name -/
theorem get_sound (c : Config) (name : String) (m : CsiMethod) (h : c.get name = some m) :
    m ∈ c.methods ∧ m.operator = false ∧ m.src = name := by
  unfold Config.get at h
  have hm := List.mem_of_find?_eq_some h
  have hp := List.find?_some h
  simp at hp
  exact ⟨hm, hp.1, hp.2⟩

/-- an empty method list enables nothing -/
theorem empty_enables_nothing (c : Config) (h : c.methods = []) :
    c.plusEnabled = false ∧ c.tplEnabled = false ∧ ∀ n, c.get n = none := by
  simp [Config.plusEnabled, Config.tplEnabled, Config.plusOperator, Config.tplOperator, Config.get, h]


/-! ### the full statement, for every program: only configured hooks are ever referenced -/

/-- **C05 (closed world of names).**  For every configuration, fuel and source program (hypotheses
    as in `master`), if the rewrite is not refused then every `_ddiast.<name>(…)` call site of the
    output uses the replacement name of a configured method or operator. -/
theorem only_configured_hooks (cfg : Config) (fuel : Nat) (p : Node)
    (h0 : ns p = 0) (ht : targetsOk p = true)
    (hnc : (transformProgram cfg fuel p).status ≠ .cancelled) :
    ∀ nm ∈ hookNames (transformProgram cfg fuel p).out, nm ∈ cfg.dsts :=
  (master cfg fuel p h0 ht hnc).2.1

/-- with an empty method list nothing is ever instrumented: every input is reported not modified -/
theorem empty_config_not_modified (cfg : Config) (fuel : Nat) (p : Node) (hm : cfg.methods = [])
    (h0 : ns p = 0) (ht : targetsOk p = true)
    (hnc : (transformProgram cfg fuel p).status ≠ .cancelled) :
    (transformProgram cfg fuel p).status = .notModified := by
  obtain ⟨hc, hnames, hmod, hn, _⟩ := master cfg fuel p h0 ht hnc
  rw [hn]
  cases hi : (transformProgram cfg fuel p).incs with
  | nil => rfl
  | cons t ts =>
    exfalso
    -- a hook call site would have to carry one of the (zero) configured names
    have hpos : 0 < hookCount (transformProgram cfg fuel p).out := by rw [hc, hi]; simp
    rw [← hooks_length] at hpos
    obtain ⟨h, hh⟩ := List.exists_mem_of_length_pos hpos
    have hhook : isHook h = true := by
      have := hh
      unfold hooks at this
      exact Node.collect_sound _ _ _ this
    obtain ⟨nm, hnm⟩ := Option.isSome_iff_exists.mp hhook
    have : nm ∈ hookNames (transformProgram cfg fuel p).out := by
      unfold hookNames
      exact List.mem_filterMap.mpr ⟨h, hh, hnm⟩
    have := hnames nm this
    simp [Config.dsts, hm] at this

end IastModel.C05

import IastModel.Spec.Codec
/-
  C09 — the embedded source map resolves positions to the right original place.
  Proved: the decoders the check reads the emitted map with are left inverses of the encoders, for
  every integer and every segment (no bound on magnitude or length), so a decoded mapping is the mapping
  that was encoded.  The contract of swc's printer (a token printed for a node with a real span maps to
  that span's start; nodes without span emit nothing) is exercised on every run, not proved.
-/
namespace IastModel.C09
open Codec

theorem vlq_roundtrip (n : Int) (rest : List Nat) : decodeVlq (encodeVlq n ++ rest) = some (n, rest) :=
  decodeVlq_encodeVlq n rest

theorem segment_roundtrip (fields : List Int) : decodeSegment fields.length (fields.flatMap encodeVlq) = some fields :=
  decodeSegment_encode fields fields.length (Nat.le_refl _)

/-- non-vacuity: a five-field segment with negative deltas -/
example : decodeSegment 5 ([3, 0, -2, 17, -1].flatMap encodeVlq) = some [3, 0, -2, 17, -1] :=
  segment_roundtrip [3, 0, -2, 17, -1]

end IastModel.C09

import IastModel.Rewriter.Rewrite
import IastModel.Spec.Erase
import IastModel.Props.C07
import IastModel.Lemmas.EffBlock
import IastModel.Lemmas.ErBlock
import IastModel.Lemmas.ErStrip
/-
  C02 — rewriting only adds instrumentation: erasing it gives back the input program.
  Proved so far: the erasure of a hook call is the erasure of its first argument (whatever the
  operand tail is), and removing the file prologue undoes its insertion exactly, for every body, every
  directive prologue and every configuration.  The full statement `eraseProgram (rewrite p) = p` for
  every program is checked by the oracle on every real output (modulo positions) and is the target of
  `Lemmas/EraseVisit.lean`.
-/
namespace IastModel.C02

theorem erase_hook (σ : Env) (e : Node) (args : List Node) (m : String) (sp : Span) :
    (erase σ (ddCall e args m sp)).1 = (erase σ e).1 := by
  simp [ddCall, ddCallee, erase, calleeKind, eraseL]

theorem span_beq_refl (s : Span) : (s == s) = true := by
  cases s; show (_ == _ && _ == _) = true; simp

theorem beq_refl' : ∀ n : Node, Node.beq n n = true := by
  intro n
  induction n using Node.rec (motive_2 := fun l => Node.beqL l l = true) with
  | nil => rfl
  | cons x xs hx hxs => simp [Node.beqL, hx, hxs]
  | ident nm sp => simp [Node.beq, Node.name_beq_refl, span_beq_refl]
  | arg s e ih => cases s <;> simp_all [Node.beq, span_beq_refl]
  | _ => simp_all [Node.beq, span_beq_refl]

theorem beqL_refl (l : List Node) : Node.beqL l l = true := by
  induction l with
  | nil => rfl
  | cons x xs ih => simp [Node.beqL, beq_refl' x, ih]

theorem length_takeWhile_le {α} (p : α → Bool) (l : List α) : (l.takeWhile p).length ≤ l.length := by
  induction l with
  | nil => simp
  | cons a l ih => simp only [List.takeWhile_cons]; split <;> simp <;> omega

theorem dropPrologue_insert (pro body : List Node) (hne : pro ≠ [])
    (hpro : ∀ x, pro.head? = some x → isDirectiveStmt x = false) :
    dropPrologue pro (insertAt body (variableInsertionIndex body) pro) = body := by
  unfold dropPrologue insertAt
  rw [C07.variableInsertionIndex_eq]
  have htw := C07.takeWhile_insert isDirectiveStmt body pro hpro
  simp only [htw]
  generalize hn : (body.takeWhile isDirectiveStmt).length = n
  have hnle : n ≤ body.length := by rw [← hn]; exact length_takeWhile_le _ _
  have hlen : (body.take n).length = n := by simp [Nat.min_eq_left hnle]
  have h1 : (body.take n ++ pro ++ body.drop n).drop n = pro ++ body.drop n := by
    rw [List.append_assoc]
    conv => lhs; arg 1; rw [← hlen]
    exact List.drop_left
  have h2 : (body.take n ++ pro ++ body.drop n).take n = body.take n := by
    rw [List.append_assoc]
    conv => lhs; arg 1; rw [← hlen]
    exact List.take_left
  rw [h1, h2]
  have h3 : (pro ++ body.drop n).take pro.length = pro := List.take_left
  have h4 : (pro ++ body.drop n).drop pro.length = body.drop n := List.drop_left
  rw [h3, h4, beqL_refl]
  have : pro.isEmpty = false := by cases pro <;> simp_all
  simp [this]

/-- for every configuration the generated prologue is removable: it is not empty and does not start
    with a directive -/
theorem prologue_removable (dsts : List String) (body : List Node) :
    dropPrologue (prologue dsts) (insertAt body (variableInsertionIndex body) (prologue dsts)) = body :=
  dropPrologue_insert (prologue dsts) body (by simp [prologue]) (C07.prologue_head_not_directive dsts)


/-! ### nothing is duplicated, nothing is lost -/

/-- **C02 / C01 (linearity of effect nodes).**  For every configuration, fuel and source program
    (hypotheses as in `master`, checked by the driver on every input), unless the rewrite is refused,
    the output is `p1`, or `p1` with the file prologue inserted, where `p1` contains exactly as many
    effect nodes as the source: calls other than hook calls, optional calls, `new`, `++`/`--`,
    `yield`, `await`, tagged templates, function / class / object expressions, `delete`, template
    literals, and assignments to anything but an injected temporary.  A transform that evaluated an
    operand twice (as `super[k()] += s` did before a700f28) or dropped one cannot satisfy this. -/
theorem effect_nodes_preserved (cfg : Config) (fuel : Nat) (p : Node) (h0 : ns p = 0) (ht : targetsOk p = true)
    (hnc : (transformProgram cfg fuel p).status ≠ .cancelled) :
    ∃ p1, eff p1 = eff p ∧
      (transformProgram cfg fuel p).out =
        (if (transformProgram cfg fuel p).status = .modified then insertPrologue (prologue cfg.dsts) p1 else p1) :=
  effect_nodes_preserved_master cfg fuel p h0 ht hnc

/-- the operation visitor alone: same number of effect nodes before and after -/
theorem visit_preserves_effect_nodes (cfg : Config) (f : Nat) (root : Bool) (n : Node) (s : St)
    (h0 : ns n = 0) (ht : targetsOk n = true) (hs : s.status ≠ .cancelled) :
    eff (visit cfg f root n s).1 = eff n :=
  visit_E cfg (okCfg cfg) (cfgOk_dsts cfg) f root n s h0 ht hs


/-! ### erasing the instrumentation gives back the input -/

/-- on a well-formed source tree (what the parser produces: no reserved temporary, no mention of the
    hook namespace, parentheses wider than their content, real positions) `erase` changes nothing -/
theorem erase_is_identity_on_source (n : Node) (h : srcOk n = true) (σ : Env) : erase σ n = (n, σ) :=
  erase_src n h σ

/-- **C02 for the operation visitor (partial: no optional chain of the tree is lowered under `cfg`).**  For every
    configuration, fuel, context flag, state and well-formed source tree `n` — statement, expression,
    any nesting of any node kinds — the tree the operation visitor returns erases, in every environment,
    to `n` itself up to source positions: each hook call gives way to its first argument, each
    temporary to the expression assigned to it, `T = hook(T + R, …)` to `T += R`, `t1.call(t0, …)` to
    the method call, the injected arrow body to the expression.  All transforms are covered (`+`, `+=`
    with every target shape, templates, method calls, `X.prototype.m.call|apply` with plain and spread
    this, bare calls, `apply` argument arrays with holes and spreads, arrows, optional chains that are not
    lowered); *partial*: the optional-chain *lowering* is excluded by `noOpt cfg`, and the block visitor's `let` / nested blocks and
    the file prologue are covered by `dropPrologue_insert` and the oracle, not by this theorem. -/
theorem operation_visitor_erases_to_input_partial (cfg : Config) (f : Nat) (root : Bool) (n : Node) (s : St)
    (hs : srcOk n = true) (hno : noOpt cfg n = true) :
    ∀ σ, ∃ X σ', erase σ (visit cfg f root n s).1 = (X, σ') ∧ strip X = strip n ∧ Node.eqNS X n = true := by
  intro σ
  have h := visit_VRes cfg f root n s hs hno
  cases root
  · obtain ⟨X, Δ, e, sX, _⟩ := h.2.1 _ (BRg.refl _) σ
    exact ⟨X, _, e, sX.1, eqNS_of_strip sX.1⟩
  · obtain ⟨hi, hv⟩ := h
    obtain ⟨X, Δ, e, sX, _⟩ := hv.1 _ (BRg.refl _) σ
    exact ⟨X, _, e, sX.1, eqNS_of_strip sX.1⟩

/-- in a nested (non-root) context the temporaries the erasure binds are exactly those allocated while
    visiting: nothing leaks into the environment of the surrounding expression -/
theorem operation_visitor_binds_only_its_own_temporaries_partial (cfg : Config) (f : Nat) (n : Node) (s : St)
    (hs : srcOk n = true) (hno : noOpt cfg n = true) :
    s.counter ≤ (visit cfg f false n s).2.counter ∧
    ∀ σ, ∃ X Δ, erase σ (visit cfg f false n s).1 = (X, Δ ++ σ) ∧ strip X = strip n ∧
      ∀ p ∈ Δ, s.counter ≤ p.1 ∧ p.1 < (visit cfg f false n s).2.counter := by
  have h := visit_VRes cfg f false n s hs hno
  refine ⟨h.1, ?_⟩
  intro σ
  obtain ⟨X, Δ, e, sX, w⟩ := h.2.1 _ (BRg.refl _) σ
  exact ⟨X, Δ, e, sX.1, w⟩

/-- the program a modified run returns, with the file prologue taken out again, erases like the program
    without the prologue -/
theorem eraseProgram_insertPrologue (dsts : List String) (p1 : Node) :
    eraseProgram (prologue dsts) (insertPrologue (prologue dsts) p1) = (erase [] p1).1 := by
  unfold insertPrologue
  split
  · rename_i k sp ns body vs
    simp only [eraseProgram, prologue_removable]
  · rename_i hne
    unfold eraseProgram
    split
    · rename_i k sp ns body vs
      exact absurd rfl (hne k sp ns body vs)
    · rfl

/-- **C02 for the whole pipeline (partial: programs none of whose optional chains is lowered).**  For every
    configuration, every fuel and every well-formed source program `p` (what the parser produces; `srcOk`,
    decidable, evaluated by the driver on every input) in which no optional chain is a call of a configured
    method off a chain link (`noOpt cfg p`: `a?.b.c`, `a?.b(x)`, `a?.[k]` are fine, `a?.b.trim()` with `trim`
    configured is not), whenever the
    rewrite reports the file as modified, erasing the instrumentation from the output — the file prologue,
    the injected `let` of every block at every nesting depth, every hook call, temporary, lowered `+=`,
    call through a hoisted function value and wrapped arrow body — gives back `p` itself up to source
    positions.  Operation visitor, block visitor (nested blocks, closures, classes, arrow bodies turned into
    blocks and instrumented in turn) and program visitor are all inside the statement; running out of fuel
    is covered too (what is not visited is returned as it is).  *Partial*: the optional-chain lowering
    (`noOpt cfg`). -/
theorem erasing_the_instrumentation_gives_back_the_input_partial (cfg : Config) (fuel : Nat) (p : Node)
    (hs : srcOk p = true) (hno : noOpt cfg p = true) (hnb : isBlockNode p = false)
    (hm : (transformProgram cfg fuel p).status = .modified) :
    strip (eraseProgram (prologue cfg.dsts) (transformProgram cfg fuel p).out) = strip p ∧
    Node.eqNS (eraseProgram (prologue cfg.dsts) (transformProgram cfg fuel p).out) p = true := by
  obtain ⟨p1, hbr, hout⟩ := transformProgram_BRg cfg fuel p hs hno hnb (by rw [hm]; intro h; cases h)
  rw [hout, if_pos hm, eraseProgram_insertPrologue]
  obtain ⟨X, Δ, eX, sX, _⟩ := (EVC.src 0 0 p hs).1 p1 hbr []
  rw [eX]
  exact ⟨sX.1, eqNS_of_strip sX.1⟩

/-- every block statement the block visitor returns — at any depth, in any state, for any fuel — erases,
    in every environment and without touching it, to the statements of the block it was given -/
theorem block_visitor_result_erases_to_the_block_partial (cfg : Config) (opFuel f : Nat) (ss : List Node) (sp : Span) (s : St)
    (hs : srcOk (.block ss sp) = true) (hno : noOpt cfg (.block ss sp) = true)
    (hnc : (blockVisit cfg opFuel f (.block ss sp) s).2.status ≠ .cancelled) :
    ∀ σ, ∃ es, erase σ (blockVisit cfg opFuel f (.block ss sp) s).1 = (.block es sp, σ) ∧ stripL es = stripL ss := by
  have hb := blockVisit_BRg cfg opFuel f (.block ss sp) s (blkOk_src _ hs hno) hnc
  intro σ
  rcases hb.block_inv with h | ⟨ss', h, hg⟩
  · rw [h, erase_src _ hs]; exact ⟨ss, rfl, rfl⟩
  · rw [h]
    obtain ⟨es, ee, hsim⟩ := hg σ
    exact ⟨es, ee, hsim.1⟩

/-- the hypotheses are satisfiable: `a + b()` is a well-formed source tree with no lowered optional chain -/
example : srcOk (.bin "+" (.ident (.user "a") ⟨1, 2⟩) (.call (.ident (.user "b") ⟨5, 6⟩) [] ⟨5, 8⟩) ⟨1, 8⟩) = true ∧
    ∀ cfg : Config, noOpt cfg (.bin "+" (.ident (.user "a") ⟨1, 2⟩) (.call (.ident (.user "b") ⟨5, 6⟩) [] ⟨5, 8⟩) ⟨1, 8⟩) = true := by
  constructor
  · simp [srcOk_eq, srcNode, srcOkL, Node.kids, callThisClash, Generated.ddGlobalNamespace]
  · intro cfg; simp [noOpt_eq, noOptK, Node.kids]

end IastModel.C02

import IastModel.Spec.Sem
import IastModel.Rewriter.Transforms
import IastModel.Lemmas.Monad
/-
  C01 — rewritten code behaves like the input when hooks are pass-through.
  Proved, for every host (every run-time value, every side effect, every exception the host can model):
  the two shapes the `+` transform builds simulate the source sum —
    * both operands hoisted: `(t_k = L', t_{k+1} = R', hook(t_k + t_{k+1}, t_k, t_{k+1}))`, given that L'
      and R' simulate L and R within the temporaries below k (so the lemma composes through nesting);
    * both operands kept in place: `hook(x + y, x, y)`, under the documented by-design hypothesis that the
      `+` itself does not change what reading x and y yields;
  and the model of `binary_add_transform.rs` returns exactly the first shape, numbered from the current
  counter, whenever both operands are of a hoisted kind (the tie between transformer model and semantics).
  Whole-program equivalence is supported by the erase oracle (C02) and by differential execution in V8.
-/
namespace IastModel.C01
open Sem

variable (H : Host)

theorem sim_lit (k v r : String) (sp : Span) (lo : Nat) :
    Sim H lo lo (semO H (.lit k v r sp)) (sem H (.lit k v r sp)) := by
  intro w t; simp [sem, semO]

theorem sim_user_ident (x : String) (sp : Span) (lo : Nat) :
    Sim H lo lo (semO H (.ident (.user x) sp)) (sem H (.ident (.user x) sp)) := by
  intro w t; simp [sem, semO]

theorem Sim.mono {lo hi lo' hi' : Nat} {d : DenW H} {d' : Den H} (h : Sim H lo hi d d')
    (h1 : lo' ≤ lo) (h2 : hi ≤ hi') : Sim H lo' hi' d d' := by
  intro w t
  obtain ⟨a, b, c⟩ := h w t
  exact ⟨a, b, fun n hn => c n (by omega)⟩

/-- the shape `binary_add` builds when both operands are hoisted -/
def plusReplace (l' r' : Node) (k : Nat) (name : String) (sp : Span) : Node :=
  ddParen (.bin "+" (tempIdent k) (tempIdent (k + 1)) sp) [.arg none (tempIdent k), .arg none (tempIdent (k + 1))]
    [.assign "=" (tempIdent k) l' sp, .assign "=" (tempIdent (k + 1)) r' sp] name sp

theorem sim_plus_replace (l r l' r' : Node) (lo k : Nat) (hlo : lo ≤ k) (name : String) (sp : Span)
    (hl : Sim H lo k (semO H l) (sem H l'))
    (hr : Sim H lo k (semO H r) (sem H r')) :
    Sim H lo (k + 2) (semO H (.bin "+" l r sp)) (sem H (plusReplace l' r' k name sp)) := by
  intro w t
  obtain ⟨hl1, hl2, hl3⟩ := hl w t
  simp only [plusReplace, ddParen, ddCall, ddCallee, tempIdent, List.isEmpty_cons, Bool.false_eq_true, if_false,
    sem, semO, semList, bindD, bindW, isHookCallee, List.cons_append, List.nil_append, beq_self_eq_true, if_true]
  rcases hdl : semO H l w with ⟨_ | vl, w1⟩ <;> rw [hdl] at hl1 hl2
  · rcases hsl : sem H l' (w, t) with ⟨rl, w1', t1⟩
    rw [hsl] at hl1 hl2 hl3; simp at hl1 hl2 hl3; subst hl1 hl2
    simp
    intro n hn; apply hl3; omega
  · rcases hsl : sem H l' (w, t) with ⟨rl, w1', t1⟩
    rw [hsl] at hl1 hl2 hl3; simp at hl1 hl2 hl3; subst hl1 hl2
    simp
    obtain ⟨hr1, hr2, hr3⟩ := hr w1' (setT H t1 k vl)
    rcases hdr : semO H r w1' with ⟨_ | vr, w2⟩ <;> rw [hdr] at hr1 hr2
    · rcases hsr : sem H r' (w1', setT H t1 k vl) with ⟨rr, w2', t2⟩
      rw [hsr] at hr1 hr2 hr3; simp at hr1 hr2 hr3; subst hr1 hr2
      simp
      intro n hn
      rw [hr3 n (by omega)]; simp [setT]; rw [if_neg (by omega)]; apply hl3; omega
    · rcases hsr : sem H r' (w1', setT H t1 k vl) with ⟨rr, w2', t2⟩
      rw [hsr] at hr1 hr2 hr3; simp at hr1 hr2 hr3; subst hr1 hr2
      have hk : t2 k = vl := by rw [hr3 k (by omega)]; simp [setT]
      simp [setT, hk]
      rcases hadd : H.add vl vr w2' with ⟨ra, w3⟩
      cases ra <;> simp
      all_goals (intro n hn; unfold setT; rw [if_neg (by omega), hr3 n (by omega)]; unfold setT; rw [if_neg (by omega)]; apply hl3; omega)


/-- the shape `binary_add` builds when both operands stay in place (identifiers / literals) -/
def plusKeep (a b : Node) (name : String) (sp : Span) : Node :=
  ddParen (.bin "+" a b sp) [.arg none a, .arg none b] [] name sp

/-- Keep mode: `hook(x + y, x, y)` behaves like `x + y` provided the `+` itself does not change what
    reading `x` and `y` yields (the hypothesis of the documented by-design carve-out: an operand whose
    coercion rebinds the other operand's variable is out of scope) -/
theorem sim_plus_keep (x y : String) (sx sy sp : Span) (name : String) (lo : Nat)
    (hpres : ∀ vx vy w, (H.add vx vy w).1.isOk = true →
      H.readVar x (H.add vx vy w).2 = H.readVar x w ∧ H.readVar y (H.add vx vy w).2 = H.readVar y w) :
    Sim H lo lo (semO H (.bin "+" (.ident (.user x) sx) (.ident (.user y) sy) sp))
      (sem H (plusKeep (.ident (.user x) sx) (.ident (.user y) sy) name sp)) := by
  intro w t
  simp only [plusKeep, ddParen, ddCall, ddCallee, List.isEmpty_nil, if_true, sem, semO, semList, bindD, bindW,
    isHookCallee, beq_self_eq_true]
  rcases hx : H.readVar x w with ex | vx
  · simp [hx]
  · rcases hy : H.readVar y w with ey | vy
    · simp [hx, hy]
    · rcases hadd : H.add vx vy w with ⟨ra, w3⟩
      cases ra with
      | error e => simp [hx, hy, hadd]
      | ok v =>
        have hp := hpres vx vy w (by rw [hadd]; rfl)
        rw [hadd] at hp
        simp only at hp
        simp [hp.1, hp.2, hx, hy, hadd]


/-- operand kinds the handler always hoists into a temporary -/
def hoisted : Node → Bool
  | .lit .. => false
  | .ident .. => false
  | .bin .. => false
  | _ => true

theorem replaceExpr_hoisted (e : Node) (mode : IdentMode) (asg args : List Node) (sp : Span) (s : St)
    (h : hoisted e = true) :
    replaceExpr e mode asg args sp .expr false s
      = ((tempIdent s.counter, asg ++ [.assign "=" (tempIdent s.counter) e sp], args ++ [.arg none (tempIdent s.counter)]),
         { s with counter := s.counter + 1, idents := if s.idents.contains s.counter then s.idents else s.idents ++ [s.counter] }) := by
  have hl : e.isLit = false := by cases e <;> simp_all [hoisted, Node.isLit]
  cases e <;> simp_all [hoisted, replaceExpr, replaceExprNoExpand, replaceDefault, getIdentUsed, getTemporalIdent,
    run_bind, run_pure, run_map, nextIdent, registerIdent, run_modify, assignRight, exprOrSpread, Node.isLit,
    modifyGet, MonadStateOf.modifyGet, StateT.modifyGet, pure, Pure.pure, bind, Bind.bind, StateT.bind, StateT.pure, StateT.map, Functor.map] <;> (split <;> rfl)

/-- tie between the model of `binary_add_transform.rs` and the semantic lemma: with two hoisted
    operands the transform returns exactly the shape `sim_plus_replace` is about, numbered from the
    current counter -/
theorem toDdBinary_replace_shape (cfg : Config) (l r : Node) (sp : Span) (s : St)
    (hl : hoisted l = true) (hr : hoisted r = true) :
    (toDdBinary cfg (.bin "+" l r sp) s).1 = some (plusReplace l r s.counter cfg.plusName sp) := by
  unfold toDdBinary
  simp only [run_bind]
  rw [replaceExpr_hoisted l _ [] [] sp s hl]
  simp only
  rw [replaceExpr_hoisted r _ _ _ sp _ hr]
  simp [mustReplaceBinary, argExpr, tempIdent, isLiteralSum, plusReplace, run_pure]

end IastModel.C01

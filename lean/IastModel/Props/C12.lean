import IastModel.Rewriter.Rewrite
import IastModel.Lemmas.Monad
/-
  C12 — the reported status never disagrees with the content.
  Proved here about the model of `update_status` / `transform_js`: the status becomes Modified only
  through an operation that reported Modified (and each such report is counted), never flips back, and
  a cancelled rewrite stays cancelled.
-/
namespace IastModel.C12

/-- `update_status`: the status is Modified afterwards iff it was before or this operation modified -/
theorem updateStatus_status (st : Status) (tag : Option String) (s : St) (h : s.status ≠ .cancelled)
    (hst : st ≠ .cancelled) :
    ((updateStatus st tag s).2.status = .modified ↔ s.status = .modified ∨ st = .modified) ∧
    (updateStatus st tag s).2.status ≠ .cancelled := by
  cases st <;> cases hs : s.status <;> simp_all [updateStatus, run_modify]

/-- one count per modifying operation, none otherwise -/
theorem updateStatus_incs (st : Status) (tag : Option String) (s : St) (h : s.status ≠ .cancelled) :
    (updateStatus st tag s).2.incs = if st = .modified then s.incs ++ [tag] else s.incs := by
  cases st <;> cases hs : s.status <;> simp_all [updateStatus, run_modify]

/-- a not-modified report changes nothing at all -/
theorem updateStatus_notModified (tag : Option String) (s : St) :
    (updateStatus .notModified tag s).2 = s := by
  cases hs : s.status <;> simp [updateStatus, run_modify, hs]

/-- cancelled is absorbing -/
theorem updateStatus_cancelled (st : Status) (tag : Option String) (s : St) (h : s.status = .cancelled) :
    (updateStatus st tag s).2 = s := by
  simp [updateStatus, run_modify, h]

/-- the prologue goes in exactly when the status is Modified (`visit_mut_program`) -/
theorem prologue_iff_modified (pro : List Node) (p : Node) (s : St) :
    let r := (do let s ← get; if s.status == .modified then pure (insertPrologue pro p) else pure p : M Node) s
    r.1 = if s.status = .modified then insertPrologue pro p else p := by
  cases hs : s.status <;> simp [run_bind, run_get, run_pure, hs]

end IastModel.C12

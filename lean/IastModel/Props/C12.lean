import IastModel.Lemmas.Master
import IastModel.Rewriter.Rewrite
import IastModel.Lemmas.Monad
/-
  C12 — the reported status never disagrees with the content.
  Proved here about the model of `update_status` / `transform_js`: the status becomes Modified only
  through an operation that reported Modified (and each such report is counted), never flips back, and
  a cancelled rewrite stays cancelled.
-/
namespace IastModel.C12

/-- `update_status`: the status is Modified afterwards iff it was before or this operation modified -/
theorem updateStatus_status (st : Status) (tag : Option String) (s : St) (h : s.status ≠ .cancelled)
    (hst : st ≠ .cancelled) :
    ((updateStatus st tag s).2.status = .modified ↔ s.status = .modified ∨ st = .modified) ∧
    (updateStatus st tag s).2.status ≠ .cancelled := by
  cases st <;> cases hs : s.status <;> simp_all [updateStatus, run_modify]

/-- one count per modifying operation, none otherwise -/
theorem updateStatus_incs (st : Status) (tag : Option String) (s : St) (h : s.status ≠ .cancelled) :
    (updateStatus st tag s).2.incs = if st = .modified then s.incs ++ [tag] else s.incs := by
  cases st <;> cases hs : s.status <;> simp_all [updateStatus, run_modify]

/-- a not-modified report changes nothing at all -/
theorem updateStatus_notModified (tag : Option String) (s : St) :
    (updateStatus .notModified tag s).2 = s := by
  cases hs : s.status <;> simp [updateStatus, run_modify, hs]

/-- cancelled is absorbing -/
theorem updateStatus_cancelled (st : Status) (tag : Option String) (s : St) (h : s.status = .cancelled) :
    (updateStatus st tag s).2 = s := by
  simp [updateStatus, run_modify, h]

/-- the prologue goes in exactly when the status is Modified (`visit_mut_program`) -/
theorem prologue_iff_modified (pro : List Node) (p : Node) (s : St) :
    let r := (do let s ← get; if s.status == .modified then pure (insertPrologue pro p) else pure p : M Node) s
    r.1 = if s.status = .modified then insertPrologue pro p else p := by
  cases hs : s.status <;> simp [run_bind, run_get, run_pure, hs]


/-! ### the full statement, for every program: the status never disagrees with the content -/

/-- **C12 (status ⇔ content).**  For every configuration, fuel and source program (hypotheses as in
    `master`), if the rewrite is not refused: the status is `modified` exactly when the output contains
    at least one hook call, in which case the output is the instrumented program with the prologue
    inserted; it is `notModified` exactly when the output contains no hook call at all. -/
theorem status_agrees_with_content (cfg : Config) (fuel : Nat) (p : Node)
    (h0 : ns p = 0) (ht : targetsOk p = true)
    (hnc : (transformProgram cfg fuel p).status ≠ .cancelled) :
    ((transformProgram cfg fuel p).status = .modified ↔ 0 < hookCount (transformProgram cfg fuel p).out) ∧
    ((transformProgram cfg fuel p).status = .notModified ↔ hookCount (transformProgram cfg fuel p).out = 0) ∧
    ((transformProgram cfg fuel p).status = .modified →
      ∃ p1, (transformProgram cfg fuel p).out = insertPrologue (prologue cfg.dsts) p1) := by
  obtain ⟨hc, _, hm, hn, hp⟩ := master cfg fuel p h0 ht hnc
  refine ⟨?_, ?_, ?_⟩
  · rw [hm, hc]
    constructor
    · intro h; exact List.length_pos_iff.mpr h
    · intro h; exact List.length_pos_iff.mp h
  · rw [hn, hc]
    constructor
    · intro h; simp [h]
    · intro h; exact List.eq_nil_of_length_eq_zero h
  · intro h
    obtain ⟨p1, h1, _⟩ := hp h
    exact ⟨p1, h1⟩

end IastModel.C12

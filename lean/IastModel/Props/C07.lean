import IastModel.Rewriter.Rewrite
import IastModel.Spec.Directives
import IastModel.Lemmas.DirectivePass
/-
  C07 — directive prologues survive.  Proved: the insertion index computed by
  `get_variable_insertion_index` is the length of the directive prologue, and inserting anything that is
  not itself a directive at that index leaves the directive prologue of the statement list unchanged —
  for the injected `let` (every block) and for the file prologue (program body).
-/
namespace IastModel.C07

theorem isDirective_eq (n : Node) : isDirective n = isDirectiveStmt n := by
  unfold isDirectiveStmt
  cases n with
  | exprStmt e sp =>
    cases e with
    | lit k v r lsp =>
      by_cases hk : k = "StringLiteral"
      · subst hk; rfl
      · simp [isDirective, directiveRaw?, hk]
    | _ => rfl
  | _ => rfl

theorem variableInsertionIndex_eq (stmts : List Node) :
    variableInsertionIndex stmts = (stmts.takeWhile isDirectiveStmt).length := by
  unfold variableInsertionIndex
  congr 2
  funext n
  exact isDirective_eq n

theorem takeWhile_insert {α} (p : α → Bool) (l xs : List α) (hx : ∀ x, xs.head? = some x → p x = false) :
    (l.take (l.takeWhile p).length ++ xs ++ l.drop (l.takeWhile p).length).takeWhile p = l.takeWhile p := by
  induction l with
  | nil =>
    cases xs with
    | nil => simp
    | cons x xs => simp [List.takeWhile_cons, hx x rfl]
  | cons a l ih =>
    by_cases ha : p a = true
    · simp [List.takeWhile_cons, ha]
      simpa using ih
    · have ha' : p a = false := by simpa using ha
      simp [List.takeWhile_cons, ha']
      cases xs with
      | nil => simp [List.takeWhile_cons, ha']
      | cons x xs => simp [List.takeWhile_cons, hx x rfl]

/-- C07 (statement-list level): inserting non-directive statements at the index the rewriter uses
    keeps the directive prologue exactly as it was -/
theorem directives_preserved_by_insertion (stmts xs : List Node)
    (hx : ∀ x, xs.head? = some x → isDirectiveStmt x = false) :
    directivesOf (insertAt stmts (variableInsertionIndex stmts) xs) = directivesOf stmts := by
  unfold directivesOf insertAt
  rw [variableInsertionIndex_eq, takeWhile_insert isDirectiveStmt stmts xs hx]

/-- the injected `let` is not a directive -/
theorem letDecl_not_directive (ids : List Nat) (sp : Span) : isDirectiveStmt (letDecl ids sp) = false := rfl

/-- C07 for every block: `insert_variable_declaration` keeps the block's directive prologue -/
theorem block_directives_preserved (ids : List Nat) (stmts : List Node) (sp : Span) :
    ∃ stmts', insertVariableDeclaration ids (.block stmts sp) = .block stmts' sp ∧
      directivesOf stmts' = directivesOf stmts := by
  unfold insertVariableDeclaration
  by_cases h : ids.isEmpty = true
  · exact ⟨stmts, by simp [h], rfl⟩
  · refine ⟨insertAt stmts (variableInsertionIndex stmts) [letDecl ids sp], by simp [h], ?_⟩
    apply directives_preserved_by_insertion
    intro x hx
    simp at hx
    subst hx
    rfl

/-- C07 for the program: the file prologue (its first statement is the empty statement `;`) goes after
    the whole directive prologue of the body -/
theorem program_directives_preserved (pro : List Node) (k : String) (sp : Span) (ns : List String)
    (body : List Node) (vs : List Node)
    (hpro : ∀ x, pro.head? = some x → isDirectiveStmt x = false) :
    directivesOf (programBody (insertPrologue pro (.other k sp ("body" :: ns) (.arr body :: vs))))
      = directivesOf body := by
  simp only [insertPrologue, programBody]
  exact directives_preserved_by_insertion body pro hpro

/-- the generated prologue starts with `;` for every configuration -/
theorem prologue_head_not_directive (dsts : List String) :
    ∀ x, (prologue dsts).head? = some x → isDirectiveStmt x = false := by
  intro x hx
  simp [prologue] at hx
  subst hx
  rfl

/-- non-vacuity: two directives, the second one being `'use strict'` -/
example : directivesOf (insertAt
    [.exprStmt (.lit "StringLiteral" "other" "'other'" ⟨1,8⟩) ⟨1,9⟩,
     .exprStmt (.lit "StringLiteral" "use strict" "'use strict'" ⟨10,22⟩) ⟨10,23⟩,
     .exprStmt (.ident (.user "x") ⟨24,25⟩) ⟨24,26⟩]
    (variableInsertionIndex
    [.exprStmt (.lit "StringLiteral" "other" "'other'" ⟨1,8⟩) ⟨1,9⟩,
     .exprStmt (.lit "StringLiteral" "use strict" "'use strict'" ⟨10,22⟩) ⟨10,23⟩,
     .exprStmt (.ident (.user "x") ⟨24,25⟩) ⟨24,26⟩]) [letDecl [0] ⟨0, 30⟩])
    = ["'other'", "'use strict'"] := by
  decide +kernel


/-! ### through the whole pass -/

/-- **C07, per block, through the whole pass.**  Whatever block statement the block visitor enters —
    a function body or any other block, at any depth, in any state — it returns a block whose leading
    directives are exactly the original statements: the operation visitor returns a directive as it is
    and never makes one, the `let` goes after the whole directive prologue, and the nested traversal
    leaves directives alone. -/
theorem block_directives_through_pass (cfg : Config) (opFuel f : Nat) (ss : List Node) (sp : Span) (s : St) :
    ∃ ss', (blockVisit cfg opFuel f (.block ss sp) s).1 = .block ss' sp ∧
      directivesOf ss' = directivesOf ss := by
  obtain ⟨ss', h1, h2⟩ := block_directives_pass cfg opFuel f ss sp s
  exact ⟨ss', h1, directivesOf_congr h2⟩

/-- **C07 for the file.**  The directive prologue of the program body is the same before and after
    the whole pass, prologue insertion included. -/
theorem program_directives_through_pass (cfg : Config) (pro : List Node) (fuel : Nat) (k : String) (sp : Span)
    (ns : List String) (body vs : List Node) (s : St)
    (hpro : ∀ x, pro.head? = some x → isDirectiveStmt x = false) :
    directivesOf (programBody (programVisit cfg pro fuel (.other k sp ("body" :: ns) (.arr body :: vs)) s).1) =
      directivesOf body := by
  by_cases hr : hasReserved (tempPrefix cfg.localVarPrefix) (.other k sp ("body" :: ns) (.arr body :: vs)) = true
  · simp [programVisit, hr, run_bind, run_pure, cancelVisit, run_modify, programBody]
  · simp only [Bool.not_eq_true] at hr
    rw [programVisit_eq cfg pro fuel _ s hr]
    simp only [mapKidsM, Node.kids, mapM', run_bind, run_pure, Node.withKids]
    obtain ⟨body', hb, hd⟩ := blockVisit_arr cfg fuel fuel body s
    rw [hb]
    split
    · rw [program_directives_preserved pro k sp ns body' _ hpro]
      exact directivesOf_congr hd
    · simp only [programBody]
      exact directivesOf_congr hd


end IastModel.C07

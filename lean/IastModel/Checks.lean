import IastModel.Rewriter.Rewrite
import IastModel.Rewriter.Literals
import IastModel.Spec.Hooks
import IastModel.Spec.Directives
import IastModel.Spec.ArgsMirror
import IastModel.Spec.Coverage
import IastModel.Spec.Scope
import IastModel.Spec.Erase
import IastModel.Show
/-
  The executable specifications applied to the *implementation's* output (layer S of DESIGN.md):
  one function per property, returning the classes of the failures found.
-/
namespace IastModel

structure Finding where
  prop : String
  cls : String
  detail : String
deriving Repr, Inhabited

/-! ### C02 helpers -/

def effectfulKind (n : Node) : Bool :=
  match n with
  | .call .. => true
  | .assign .. => true
  | .tpl .. => true
  | .array .. => true
  | .arrow .. => true
  | .optChain .. => true
  | .other k _ _ _ =>
    ["NewExpression", "UpdateExpression", "YieldExpression", "AwaitExpression", "TaggedTemplateExpression",
     "FunctionExpression", "ClassExpression", "ObjectExpression"].contains k
  | .lit k _ _ _ => k == "RegExpLiteral"
  | _ => false

def isRegexLit : Node → Bool
  | .lit k _ _ _ => k == "RegExpLiteral"
  | _ => false

/-- the tree without the argument tails of hook calls (they only repeat operands by design) -/
partial def dropHookTails (n : Node) : Node :=
  match n with
  | .call c (.arg none first :: _) sp =>
    if isHook n then .call c [.arg none (dropHookTails first)] sp
    else n.withKids (n.kids.map dropHookTails)
  | _ => n.withKids (n.kids.map dropHookTails)

/-- effectful sub-expressions that occur twice (same node, same source position) -/
def duplicatedEffectful (out : Node) : List Node :=
  let cands := (Node.collect (fun k => effectfulKind k && !k.span.isDummy) (dropHookTails out))
  let rec go : List Node → List Node → List Node
    | [], acc => acc
    | x :: xs, acc => if xs.any (fun y => y.span == x.span && y == x) then go xs (x :: acc) else go xs acc
  go cands []

/-- member accesses that are read (an assignment's own target is written, not read; what it is made of is read) -/
partial def memberReads (n : Node) : List Node :=
  match n with
  | .assign _ (.member o p _) r _ => memberReads o ++ memberReads p ++ memberReads r
  | .assign _ (.paren (.member o p _) _) r _ => memberReads o ++ memberReads p ++ memberReads r
  | .member o p sp =>
    (if sp.isDummy then [] else [n]) ++ memberReads o ++ memberReads p
  | .block .. => []
  | _ => (n.kids.map memberReads).flatten

/-- a member access of the input (same node, same source position) that the output reads twice within one
    block's own code: a getter or proxy behind it would run twice -/
def duplicatedMemberReads (out : Node) : List Node :=
  let own (b : Node) : List Node := memberReads (dropHookTails (match b with | .block ss sp => .seq ss sp | n => n))
  let rec go : List Node → List Node → List Node
    | [], acc => acc
    | x :: xs, acc => if xs.any (fun y => y.span == x.span && y == x) then go xs (x :: acc) else go xs acc
  let blocks := Node.collect (fun k => match k with | .block .. => true | _ => false) out
  go (own out) [] ++ ((blocks.filter (fun b => !(b == out))).map fun b => go (own b) []).flatten

def isPureTargetPart : Node → Bool
  | .ident .. => true
  | .lit .. => true
  | .pname .. => true
  | .other "ThisExpression" .. => true
  | _ => false

/-- class of a duplicated node, to tell the known `+=` target duplication from anything else -/
def dupClass (out : Node) (d : Node) : String :=
  -- is `d` inside the target of a lowered `+=` ?
  let lowered := Node.collect (fun k => match k with
    | .assign "=" left _ sp =>
      (match left with | .ident .. => false | _ => true) &&
      (Node.count (fun x => x.span == d.span && x == d) left > 0) && !sp.isDummy
    | _ => false) out
  if !lowered.isEmpty then "pluseq/member-target-evaluated-twice"
  else if isRegexLit d then "literal-receiver/regex-literal-evaluated-twice"
  else "duplicated-subexpression"

/-! ### the known optional-chain leak (the `found` flag of the lowering reaches other chains) -/

partial def spineNodes : Node → List Node
  | .optChain o b sp => .optChain o b sp :: spineNodes b
  | .optCall c _ _ => (match c with | .optChain .. => spineNodes c | _ => [])
  | .member o _ _ => (match o with | .optChain .. => spineNodes o | _ => [])
  | _ => []

def isOptChain : Node → Bool
  | .optChain .. => true
  | _ => false

def hasTrigger (cfg : Config) (n : Node) : Bool :=
  Node.count (fun k => match k with
    | .optChain optional base _ => ocTriggerSpec cfg optional base
    | _ => false) n > 0
where
  ocTriggerSpec (cfg : Config) (optional : Bool) (base : Node) : Bool :=
    !optional && match base with
    | .optCall (.optChain _ (.member _ (.pname m _) _) _) _ _ => (cfg.get m).isSome
    | _ => false

/-- an optional chain expression that contains another optional chain off its own spine, and a
    configured method somewhere: the class of inputs on which the lowering is known to misbehave -/
def leakyChain (cfg : Config) (n : Node) : Bool :=
  isOptChain n && hasTrigger cfg n &&
  Node.count isOptChain n > (spineNodes n).length

def hasLeakyChain (cfg : Config) (n : Node) : Bool := Node.count (leakyChain cfg) n > 0

/-- equality up to positions, where sub-trees of the input that are leaky chains are not compared -/
partial def eqModLeaky (cfg : Config) (inp erased : Node) : Bool :=
  if leakyChain cfg inp then true
  else if inp.kindName != erased.kindName then false
  else
    let a := inp.kids
    let b := erased.kids
    let blank (n : Node) : Node := n.withKids (n.kids.map fun _ => Node.atom "")
    a.length == b.length && Node.eqNS (blank inp) (blank erased) &&
    (a.zip b).all fun p => eqModLeaky cfg p.1 p.2

/-! ### per property oracles on (config, input tree, real output tree, record fields) -/


/-! ### `delete` needs a reference: its operand is never one of the shapes the rewriter injects -/

def stripParens : Node → Node
  | .paren e _ => stripParens e
  | n => n

/-- a hook call, a call through a temporary, a sequence that assigns a temporary, a lowered guard -/
def injectedShape (n : Node) : Bool :=
  match n with
  | .seq es _ => headIsTempAssign es
  | .call c _ _ => (match calleeKind c with | .plain => false | _ => true)
  | .cond .. => (isLoweredGuard n).isSome
  | _ => false

/-- `delete X` of the output where `X` (parentheses aside) is a value the rewriter built: the property is
    no longer removed, `delete` just answers `true` -/
def rewrittenDeleteOperands (out : Node) : List Node :=
  Node.collect (fun k => match k with
    | .unary op a _ => isDelete op && injectedShape (stripParens a)
    | _ => false) out

/-- guards of lowered optional chains (`t == null ? undefined : …`, no source position) -/
def loweredGuards (out : Node) : Nat := Node.count (fun k => (isLoweredGuardAny k)) out
where
  isLoweredGuardAny : Node → Bool
    | .cond (.bin "==" _ (.lit "NullLiteral" _ _ _) _) (.ident (.user "undefined") usp) _ csp => csp.isDummy && usp.isDummy
    | _ => false

structure RealOut where
  cfg : Config
  pfx : String
  inp : Node
  out : Node
  status : String            -- Modified | NotModified | Cancelled | other outcome
  content : String
  metricsCount : Nat
  file : String := ""
  metricsFile : Option String := none
  metricsDebug : Option (List (String × Nat))

def shortN (r : RealOut) (n : Node) : String := Node.short r.pfx n

def checkC02 (r : RealOut) : List Finding :=
  if r.status != "Modified" then [] else
  let erased := eraseProgram (prologue r.cfg.dsts) r.out
  let f1 :=
    if Node.eqNS erased r.inp then []
    else
      let d := Node.diff r.pfx "" (Node.normText erased) (Node.normText r.inp)
      let cls :=
        if hasLeakyChain r.cfg r.inp && eqModLeaky r.cfg (Node.normText r.inp) (Node.normText erased) then
          "optional-chain/lowering-leaks-into-arguments-or-nested-functions"
        else if hasTemp erased then "erase/unassigned-temporary-left" else "erase/differs-from-input"
      [⟨"C02", cls, match d with | some (p, a, b) => s!"at {p}: erased={a} input={b}" | none => "differs only in parentheses/spelling?"⟩]
  let f1 := if f1.length == 1 && (Node.eqNS (Node.normText erased) (Node.normText r.inp)) then [] else f1
  let dups := duplicatedEffectful r.out
  let mdups := (duplicatedMemberReads r.out).eraseDups
  f1 ++ (dups.map fun d => ⟨"C02", dupClass r.out d, shortN r d⟩) ++
    (mdups.map fun d => ⟨"C02", "member-access-read-twice", shortN r d⟩) ++
    ((rewrittenDeleteOperands r.out).map fun d => ⟨"C02", "delete-operand-replaced-by-a-value", shortN r d⟩)

def checkC03 (r : RealOut) : List Finding :=
  if r.status != "Modified" || !NoNs r.inp then [] else
  (hooks r.out).filterMap fun h =>
    match argsMirrorSite r.cfg h with
    | some c => some ⟨"C03", "argsMirror/" ++ c, shortN r h⟩
    | none => if applyArgsListed h then none else some ⟨"C03", "argsMirror/apply-arguments-passed-as-one-operand", shortN r h⟩

def checkC04 (r : RealOut) : List Finding :=
  if r.status == "Cancelled" || !NoNs r.inp then [] else
  (uncovered r.cfg r.inp r.out).map fun o => ⟨"C04", "uncovered/" ++ o.what, s!"{o.dst}@{o.sp}"⟩

def checkC05 (r : RealOut) : List Finding :=
  if r.status == "Cancelled" then [] else
  let names := hookNames r.out
  let inNames := hookNames r.inp
  (if (names.filter fun n => !inNames.contains n).all fun n => r.cfg.dsts.contains n then []
   else [⟨"C05", "hook-name-not-configured", toString (names.filter fun n => !r.cfg.dsts.contains n)⟩]) ++
  (if r.cfg.methods.isEmpty && r.status != "NotModified" then [⟨"C05", "modified-under-empty-method-list", r.status⟩] else []) ++
  -- an optional chain is lowered only to reach a configured method called on it: an input without such a
  -- chain comes back without any lowered guard
  (if NoNs r.inp && !hasTrigger r.cfg r.inp && loweredGuards r.out > loweredGuards r.inp then
     [⟨"C05", "optional-chain-lowered-though-no-configured-method-is-called-on-it", toString (loweredGuards r.out)⟩] else []) ++
  -- the prologue (the statement that tests `typeof _ddiast`) comes before every statement that holds a hook
  -- call which was not in the input: else that hook runs before the pass-through object exists
  (if r.status != "Modified" || !NoNs r.inp then [] else
    let body := programBody r.out
    let isPro (k : Node) : Bool := match k with
      | .ifStmt (.bin "===" (.unary "typeof" (.ident (.user ns) _) _) _ _) _ _ _ => ns == Generated.ddGlobalNamespace
      | _ => false
    match body.findIdx? isPro with
    | none => [⟨"C05", "modified-file-without-the-prologue", ""⟩]
    | some i =>
      match (body.take i).find? (fun k => hookCount k > 0) with
      | some k => [⟨"C05", "hook-call-in-a-statement-before-the-prologue", shortN r k⟩]
      | none => [])

def checkC06 (r : RealOut) : List Finding :=
  let refused := mentionsReserved r.pfx r.inp
  (if refused && r.status != "Cancelled" then [⟨"C06", "reserved-prefix-not-refused", r.status⟩] else []) ++
  (if !refused && r.status == "Cancelled" then [⟨"C06", "refused-without-reserved-prefix", ""⟩] else []) ++
  (if r.status == "Modified" then (scopeIssues r.out).map fun i =>
     ⟨"C06", "scope/" ++ i.cls ++ (if hasLeakyChain r.cfg r.inp && i.cls == "temp-not-declared-in-its-block" then "/under-leaky-optional-chain" else ""),
      s!"temp {i.temp} block@{i.sp}"⟩ else []) ++
  (if r.status == "Modified" then (reassignedWhileLive r.out).map fun i =>
     ⟨"C06", "scope/" ++ i.cls, s!"temp {i.temp} sequence@{i.sp}"⟩ else [])

def checkC07 (r : RealOut) : List Finding :=
  if r.status != "Modified" then [] else
  if directivesPreserved r.inp r.out then [] else
    [⟨"C07", "directive-prologue-changed", s!"program: {directivesOf (programBody r.inp)} vs {directivesOf (programBody r.out)}"⟩]

def checkC12 (r : RealOut) : List Finding :=
  if r.status == "Cancelled" || !NoNs r.inp then [] else
  let n := hookCount r.out
  (if r.status == "Modified" && n == 0 then [⟨"C12", "modified-without-hook", ""⟩] else []) ++
  (if r.status == "NotModified" && n != 0 then [⟨"C12", "hook-emitted-but-not-modified", ""⟩] else []) ++
  (if r.status == "NotModified" && r.content != "" then [⟨"C12", "not-modified-with-content", ""⟩] else []) ++
  (if r.status == "Modified" && r.content == "" then [⟨"C12", "modified-without-content", ""⟩] else []) ++
  (if r.status == "Modified" && !r.cfg.methods.isEmpty &&
      Node.beqL (dropPrologue (prologue r.cfg.dsts) (programBody r.out)) (programBody r.out) then
     [⟨"C12", "modified-without-prologue", ""⟩] else []) ++
  (if r.status == "Modified" && (r.content.splitOn "\n//# sourceMappingURL=data:application/json;base64,").length != 2 then
     [⟨"C12", "modified-without-single-inline-map-trailer", ""⟩] else [])

/-- hook sites named like the `+` operator whose position is that of an input node selected by `sel` -/
def plusSitesAt (r : RealOut) (sel : Node → Option Span) : Nat :=
  let spans := (Node.collect (fun k => (sel k).isSome) r.inp).filterMap sel
  ((hookSites r.out).filter fun s => s.1 == r.cfg.plusName && spans.contains s.2).length

/-- the `+` and `+=` entries of the debug breakdown count the hooks standing for `+` and for `+=`
    operations of the input (a hook carries the position of the operation it wraps) -/
def checkC15Tags (r : RealOut) (dbg : List (String × Nat)) : List Finding :=
  if !r.cfg.plusEnabled || r.cfg.methods.any (fun m => m.src == Generated.addTag || m.src == Generated.addAssignTag) then [] else
  let get := fun (t : String) => ((dbg.filter fun p => p.1 == t).map (·.2)).sum
  let plus := plusSitesAt r fun k => match k with | .bin op _ _ sp => if op == "+" then some sp else none | _ => none
  let plusEq := plusSitesAt r fun k => match k with | .assign op _ _ sp => if op == "+=" then some sp else none | _ => none
  (if get Generated.addTag != plus then
     [⟨"C15", "tag-count-differs-from-hooks-of-that-operation", s!"{Generated.addTag}: reported {get Generated.addTag}, hooks at + operations {plus}"⟩] else []) ++
  (if get Generated.addAssignTag != plusEq then
     [⟨"C15", "tag-count-differs-from-hooks-of-that-operation", s!"{Generated.addAssignTag}: reported {get Generated.addAssignTag}, hooks at += operations {plusEq}"⟩] else [])

def checkC15 (r : RealOut) : List Finding :=
  if r.status == "Cancelled" || !NoNs r.inp then [] else
  let names := hookNames r.out
  let expected := match r.cfg.verbosity with | .off => 0 | _ => names.length
  (if r.metricsCount != expected then
    [⟨"C15", "count-differs-from-hook-sites", s!"reported {r.metricsCount}, hook sites {names.length}"⟩] else []) ++
  (match r.metricsFile with
   | some f => if f != r.file then [⟨"C15", "reported-file-is-not-the-file-of-the-call", s!"reported {f}, called with {r.file}"⟩] else []
   | none => []) ++
  (match r.cfg.verbosity, r.metricsDebug with
   | .debug, some dbg =>
     (if debugPartitions r.cfg dbg names then [] else [⟨"C15", "debug-breakdown-does-not-partition", toString dbg ++ " vs " ++ toString names⟩]) ++
       checkC15Tags r dbg
   | .debug, none => [⟨"C15", "debug-breakdown-missing", ""⟩]
   | _, some _ => [⟨"C15", "debug-breakdown-present-outside-debug", ""⟩]
   | _, none => [])

def allChecks (r : RealOut) : List Finding :=
  checkC02 r ++ checkC03 r ++ checkC04 r ++ checkC05 r ++ checkC06 r ++ checkC07 r ++ checkC12 r ++ checkC15 r

end IastModel

import IastModel.Generated.Constants
/-
  Model of src/visitor/csi_methods.rs, the `Config` record of src/rewriter.rs, the option defaulting
  of src/lib_wasm.rs (`RewriterConfig::to_config`) and `TelemetryVerbosity::parse`.
-/
namespace IastModel

inductive Verbosity where
  | off | mandatory | information | debug
deriving DecidableEq, Repr, Inhabited

def Verbosity.ofName : String → Option Verbosity
  | "Off" => some .off
  | "Mandatory" => some .mandatory
  | "Information" => some .information
  | "Debug" => some .debug
  | _ => none

def Verbosity.name : Verbosity → String
  | .off => "Off" | .mandatory => "Mandatory" | .information => "Information" | .debug => "Debug"

structure CsiMethod where
  src : String
  dst : String
  operator : Bool
  allowedWithoutCallee : Bool
deriving DecidableEq, Repr, Inhabited

structure Config where
  chainSourceMap : Bool
  printComments : Bool
  localVarPrefix : String
  methods : List CsiMethod
  verbosity : Verbosity
  literals : Bool
deriving Repr, Inhabited

namespace Config

/-- `CsiMethods::new`: first operator entry named `plusOperator` -/
def plusOperator (c : Config) : Option CsiMethod :=
  c.methods.find? fun m => m.operator && m.src == Generated.ddPlusOperator

def tplOperator (c : Config) : Option CsiMethod :=
  c.methods.find? fun m => m.operator && m.src == Generated.ddTemplateLiteralOperator

def plusEnabled (c : Config) : Bool := c.plusOperator.isSome
def tplEnabled (c : Config) : Bool := c.tplOperator.isSome

def plusName (c : Config) : String :=
  match c.plusOperator with
  | some m => m.dst
  | none => Generated.ddPlusOperator

def tplName (c : Config) : String :=
  match c.tplOperator with
  | some m => m.dst
  | none => Generated.ddTemplateLiteralOperator

/-- `CsiMethods::get`: first non-operator entry with that source name -/
def get (c : Config) (name : String) : Option CsiMethod :=
  c.methods.find? fun m => !m.operator && m.src == name

/-- the configured replacement names -/
def dsts (c : Config) : List String := c.methods.map (·.dst)

/-- `method_allows_literal_callers`; `CsiMethods::empty()` (no method list given) has an empty table,
    but then `get` is always `none`, so the table is never consulted with a hit. -/
def allowsLiteralCallers (_c : Config) (name : String) : Bool :=
  Generated.methodWithLiteralCallers.contains name

end Config

/-! ### option defaulting (src/lib_wasm.rs) -/

structure RawCsiMethod where
  src : String
  dst : Option String
  operator : Option Bool
  allowedWithoutCallee : Option Bool
deriving Repr, Inhabited

structure RawConfig where
  chainSourceMap : Option Bool
  comments : Option Bool
  localVarPrefix : Option String
  csiMethods : Option (List RawCsiMethod)
  telemetryVerbosity : Option String
  literals : Option Bool
deriving Repr, Inhabited

/-- `RewriterConfig::default()` — used when the JS value does not deserialise -/
def RawConfig.default : RawConfig :=
  { chainSourceMap := some false, comments := some false, localVarPrefix := none, csiMethods := none,
    telemetryVerbosity := some "INFORMATION", literals := some true }

def parseVerbosity (v : Option String) : Verbosity :=
  match v with
  | none => (Verbosity.ofName Generated.verbosityAbsent).getD .information
  | some s =>
    match Generated.verbosityTable.find? (fun p => p.1 == s.toUpper) with
    | some p => (Verbosity.ofName p.2).getD .information
    | none => (Verbosity.ofName Generated.verbosityFallback).getD .information

def CsiMethod.ofRaw (m : RawCsiMethod) : CsiMethod :=
  { src := m.src, dst := m.dst.getD m.src,
    operator := m.operator.getD Generated.defaultOperator,
    allowedWithoutCallee := m.allowedWithoutCallee.getD Generated.defaultAllowedWithoutCallee }

/-- `to_config`; the random prefix is a parameter (chosen once per rewriter) -/
def toConfig (r : RawConfig) (rnd : String) : Config :=
  { chainSourceMap := r.chainSourceMap.getD Generated.defaultChainSourceMap
    printComments := r.comments.getD Generated.defaultComments
    localVarPrefix := r.localVarPrefix.getD rnd
    methods := (r.csiMethods.getD []).map CsiMethod.ofRaw
    verbosity := parseVerbosity r.telemetryVerbosity
    literals := r.literals.getD Generated.defaultLiterals }

end IastModel

import IastModel.Spec.Hooks
/-
  C03 (static half): the argument list of every hook call mirrors the operands of the operation in its
  first argument: (result, left, right) for `+`/`+=`, (result, substitutions…) for templates,
  (result, function, receiver, call arguments…) for method calls, spreads re-spread.
  Failures are classified so that each known finding is one narrow class.
-/
namespace IastModel

/-- an operand as it must re-appear in the hook's argument list -/
def mirrorOf (a : Node) : Node :=
  match a with
  | .arg s e => .arg s e
  | e => .arg none e

def argsEq (xs ys : List Node) : Bool := Node.eqNSL xs ys

def isPlusSum : Node → Bool
  | .bin "+" _ _ _ => true
  | _ => false

def isSpreadArg : Node → Bool
  | .arg (some _) _ => true
  | _ => false

def isSpreadLit : Node → Bool
  | .arg (some _) (.lit ..) => true
  | _ => false

/-- array literals passed to `apply` are handed to the hook element by element -/
def expandApplyArg (a : Node) : List Node :=
  match a with
  | .arg none (.array elems _) => elems
  | a => [a]

/-- expected hook arguments (after the result) for a method-call shaped first argument -/
def expectedCallArgs (first : Node) : Option (List Node) :=
  match first with
  | .call (.member f (.pname ca _) _) cargs _ =>
    if ca == Generated.callMethodName then
      some (.arg none f :: cargs)
    else if ca == Generated.applyMethodName then
      match cargs with
      | this :: rest =>
        if isSpreadArg this then some (.arg none f :: (cargs.map expandApplyArg).flatten)
        else some (.arg none f :: this :: (rest.map expandApplyArg).flatten)
      | [] => none
    else none
  | _ => none

/-- `none` = mirrors; `some cls` = the class of the mismatch -/
def argsMirrorSite (cfg : Config) (h : Node) : Option String :=
  match h with
  | .call (.member _ (.pname name _) _) (.arg none first :: rest) _ =>
    match first with
    | .bin "+" l r _ =>
      if name != cfg.plusName then some "plus-shape-under-other-hook"
      else if argsEq rest [.arg none l, .arg none r] then none
      else if isPlusSum l || isPlusSum r then some "plus/uninstrumented-sum-operand-omitted"
      else some "plus/mismatch"
    | .tpl exprs _ _ =>
      if name != cfg.tplName then some "tpl-shape-under-other-hook"
      else if argsEq rest (exprs.map mirrorOf) then none
      else if exprs.any isPlusSum then some "tpl/uninstrumented-sum-substitution-omitted"
      else some "tpl/mismatch"
    | .call (.ident _ _) cargs _ =>
      -- bare call allowed without callee: (result, function, undefined, args…)
      match first, rest with
      | .call f _ _, fArg :: .arg none (.ident (.user "undefined") _) :: restArgs =>
        if Node.eqNS fArg (.arg none f) && argsEq restArgs cargs then none
        else if cargs.any isSpreadLit then some "call/spread-literal-passed-unspread"
        else if cargs.any (fun a => isPlusSum (match a with | .arg _ e => e | e => e)) then some "call/uninstrumented-sum-argument-omitted"
        else some "bare-call/mismatch"
      | _, _ => some "bare-call/mismatch"
    | _ =>
      match expectedCallArgs first with
      | some exp =>
        if argsEq rest exp then none
        else if exp.any isSpreadLit then some "call/spread-literal-passed-unspread"
        else if exp.any (fun a => isPlusSum (match a with | .arg _ e => e | e => e)) then some "call/uninstrumented-sum-argument-omitted"
        else if exp.any (fun a => match a with | .atom _ => true | _ => false) then some "apply/array-hole-dropped"
        else some "call/mismatch"
      | none => some "unknown-first-argument-shape"
  | _ => some "hook-without-result-argument"

/-- classes of all mismatching hook sites of a tree -/
def argsMirror (cfg : Config) (out : Node) : List String :=
  (hooks out).filterMap (argsMirrorSite cfg)

end IastModel

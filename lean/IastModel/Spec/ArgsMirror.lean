import IastModel.Spec.Hooks
/-
  C03 (static half): the argument list of every hook call mirrors the operands of the operation in its
  first argument: (result, left, right) for `+`/`+=`, (result, substitutions…) for templates,
  (result, function, receiver, call arguments…) for method calls, spreads re-spread.
  Failures are classified so that each known finding is one narrow class.
-/
namespace IastModel

/-- an operand as it must re-appear in the hook's argument list -/
def mirrorOf (a : Node) : Node :=
  match a with
  | .arg s e => .arg s e
  | e => .arg none e

def argsEq (xs ys : List Node) : Bool := Node.eqNSL xs ys

def isPlusSum : Node → Bool
  | .bin "+" _ _ _ => true
  | _ => false

def isSpreadArg : Node → Bool
  | .arg (some _) _ => true
  | _ => false

def isSpreadLit : Node → Bool
  | .arg (some _) (.lit ..) => true
  | _ => false

/-- array literals passed to `apply` are handed to the hook element by element; so is a spread array
    literal (`...[a, b]` is the same argument list as `a, b`) -/
def applyElem (el : Node) : Node :=
  match el with
  | .arg s e => .arg s e
  | _ => .arg none (.unary "void" (.lit "NumericLiteral" "{\"value\":0.0,\"raw\":null}" "" Span.dummy) Span.dummy)  -- a hole

def expandApplyArg (a : Node) : List Node :=
  match a with
  | .arg _ (.array elems _) => elems.map applyElem
  | a => [a]

/-- a `+` sum that is not made of literals only (left in place and not passed on when the `+` operator
    is not configured) -/
def isNonLiteralSum (n : Node) : Bool :=
  isPlusSum n && !litSumSpec n
where
  litSumSpec : Node → Bool
    | .lit .. => true
    | .bin "+" l r _ => litSumSpec l && litSumSpec r
    | _ => false

def sumClass (cfg : Config) (what : String) : String :=
  if cfg.plusEnabled then what ++ "/sum-omitted-although-plus-is-enabled"
  else what ++ "/uninstrumented-sum-omitted-when-plus-is-disabled"

def isArgNode : Node → Bool
  | .arg .. => true
  | _ => false

/-- the arguments of a call are its `ExprOrSpread` children (swc's `Vec<ExprOrSpread>` holds nothing
    else; the untyped `Node` tree could, and such children are not arguments) -/
def callArgs (cargs : List Node) : List Node := cargs.filter isArgNode

/-- expected hook arguments (after the result) for a method-call shaped first argument -/
def expectedCallArgs (first : Node) : Option (List Node) :=
  match first with
  | .call (.member f (.pname ca _) _) cargs _ =>
    if ca == Generated.callMethodName then
      some (.arg none f :: callArgs cargs)
    else if ca == Generated.applyMethodName then
      match callArgs cargs with
      | this :: rest =>
        if isSpreadArg this then some (.arg none f :: ((this :: rest).map expandApplyArg).flatten)
        else some (.arg none f :: this :: (rest.map expandApplyArg).flatten)
      | [] => none
    else none
  | _ => none

def argOf : Node → Node
  | .arg _ e => e
  | e => e

def mirrorPlus (cfg : Config) (name : String) (l r : Node) (rest : List Node) : Option String :=
  if name != cfg.plusName then some "plus-shape-under-other-hook"
  else if argsEq rest [.arg none l, .arg none r] then none
  else if isNonLiteralSum l || isNonLiteralSum r then some (sumClass cfg "plus")
  else some "plus/mismatch"

def mirrorTpl (cfg : Config) (name : String) (exprs rest : List Node) : Option String :=
  if name != cfg.tplName then some "tpl-shape-under-other-hook"
  else if argsEq rest (exprs.map mirrorOf) then none
  else if exprs.any isNonLiteralSum then some (sumClass cfg "tpl")
  else some "tpl/mismatch"

/-- bare call allowed without callee: (result, function, undefined, args…) -/
def mirrorBare (cfg : Config) (f : Node) (cargs rest : List Node) : Option String :=
  match rest with
  | fArg :: .arg none (.ident (.user "undefined") _) :: restArgs =>
    if Node.eqNS fArg (.arg none f) && argsEq restArgs (callArgs cargs) then none
    else if (callArgs cargs).any (fun a => isNonLiteralSum (argOf a)) then some (sumClass cfg "call")
    else some "bare-call/mismatch"
  | _ => some "bare-call/mismatch"

def mirrorCall (cfg : Config) (first : Node) (rest : List Node) : Option String :=
  match expectedCallArgs first with
  | some exp =>
    if argsEq rest exp then none
    else if exp.any (fun a => isNonLiteralSum (argOf a)) then some (sumClass cfg "call")
    else some "call/mismatch"
  | none => some "unknown-first-argument-shape"

/-- `none` = mirrors; `some cls` = the class of the mismatch -/
def argsMirrorFirst (cfg : Config) (name : String) (first : Node) (rest : List Node) : Option String :=
  match first with
  | .bin "+" l r _ => mirrorPlus cfg name l r rest
  | .tpl exprs _ _ => mirrorTpl cfg name exprs rest
  | .call (.ident n isp) cargs _ => mirrorBare cfg (.ident n isp) cargs rest
  | _ => mirrorCall cfg first rest

def argsMirrorSite (cfg : Config) (h : Node) : Option String :=
  match h with
  | .call (.member _ (.pname name _) _) (.arg none first :: rest) _ => argsMirrorFirst cfg name first rest
  | _ => some "hook-without-result-argument"

/-- `f.apply(this, A)` calls `f` with the elements of `A`: a hook can list "the call arguments in
    order" only element by element (array literal) or by spreading; `A` itself handed over as one
    operand is not the argument list.  (Not part of `argsMirrorSite`: the rewriter never instruments
    such a call, which is the known C04 finding `proto-apply/arguments-not-an-array-literal`.) -/
def applyArgsListed (h : Node) : Bool :=
  match h with
  | .call _ (.arg none (.call (.member _ (.pname ca _) _) cargs _) :: _) _ =>
    if ca == Generated.applyMethodName then
      match callArgs cargs with
      | this :: a :: _ =>
        isSpreadArg this || isSpreadArg a || (match a with | .arg _ (.array ..) => true | _ => false)
      | _ => true
    else true
  | _ => true

/-- classes of all mismatching hook sites of a tree -/
def argsMirror (cfg : Config) (out : Node) : List String :=
  (hooks out).filterMap (argsMirrorSite cfg)

end IastModel

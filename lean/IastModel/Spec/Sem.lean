import IastModel.Rewriter.State
/-
  C01 / C03 — a parametric big-step semantics for the expression fragment the rewriter builds and
  touches: literals, identifiers, temporaries, binary operators, assignment to a temporary, parentheses,
  sequences, hook calls `_ddiast.<name>(result, operands…)`.  Every primitive (reading a variable, `+`,
  any other binary operator, any node kind outside the fragment) is supplied by an arbitrary `Host`, as
  a state transformer over an abstract world `W` (heap, user variables, effect log): theorems hold for
  every host, i.e. for every run-time value and every side effect the host can model.

  Source programs run over the world only (`semO`); rewritten programs run over world × temporaries
  (`sem`), hooks being pass-through.  `Sim lo hi d d'` says that the rewritten denotation `d'` produces
  the same outcome and the same world as the source denotation `d`, and writes temporaries only in
  `[lo, hi)`.
-/
namespace IastModel.Sem

structure Host where
  V : Type
  W : Type
  X : Type
  undef : V
  litV : String → String → V
  readVar : String → W → Except X V
  add : V → V → W → Except X V × W
  binop : String → V → V → W → Except X V × W
  /-- meaning of every node outside the fragment, as a whole (source side / rewritten side) -/
  opaqueW : Node → W → Except X V × W

variable (H : Host)

abbrev T (H : Host) := Nat → H.V
abbrev S (H : Host) := H.W × T H
abbrev DenW (H : Host) := H.W → Except H.X H.V × H.W
abbrev Den (H : Host) := S H → Except H.X H.V × S H

def setT (t : T H) (n : Nat) (v : H.V) : T H := fun m => if m = n then v else t m

def bindW (d : DenW H) (k : H.V → DenW H) : DenW H := fun s =>
  match d s with
  | (.ok v, s') => k v s'
  | (.error x, s') => (.error x, s')

def bindD (d : Den H) (k : H.V → Den H) : Den H := fun s =>
  match d s with
  | (.ok v, s') => k v s'
  | (.error x, s') => (.error x, s')

/-- reference semantics of source expressions -/
def semO : Node → DenW H
  | .lit k v _ _ => fun w => (.ok (H.litV k v), w)
  | .ident (.user x) _ => fun w => (H.readVar x w, w)
  | .bin op l r sp =>
    bindW H (semO l) fun vl => bindW H (semO r) fun vr => fun w =>
      if op == "+" then H.add vl vr w else H.binop op vl vr w
  | .paren e _ => semO e
  | n => H.opaqueW n

/-- is this the callee of a hook call -/
def isHookCallee : Node → Bool
  | .member (.ident (.user ns) _) (.pname _ _) _ => ns == Generated.ddGlobalNamespace
  | _ => false

mutual
/-- semantics of rewritten expressions; hooks return their first argument -/
def sem : Node → Den H
  | .lit k v _ _ => fun st => (.ok (H.litV k v), st)
  | .ident (.user x) _ => fun st => (H.readVar x st.1, st)
  | .ident (.temp n) _ => fun st => (.ok (st.2 n), st)
  | .bin op l r sp =>
    bindD H (sem l) fun vl => bindD H (sem r) fun vr => fun st =>
      let p := if op == "+" then H.add vl vr st.1 else H.binop op vl vr st.1
      (p.1, (p.2, st.2))
  | .assign op left r sp =>
    match left with
    | .ident (.temp n) _ => bindD H (sem r) fun v => fun st => (.ok v, (st.1, setT H st.2 n v))
    | _ => fun st => let p := H.opaqueW (.assign op left r sp) st.1; (p.1, (p.2, st.2))
  | .paren e _ => sem e
  | .seq es _ => fun st =>
    match semList es st with
    | (.ok vs, st') => (.ok (vs.getLast?.getD H.undef), st')
    | (.error x, st') => (.error x, st')
  | .call callee args sp =>
    if isHookCallee callee then fun st =>
      match semList args st with
      | (.ok (v :: _), st') => (.ok v, st')
      | (.ok [], st') => (.ok H.undef, st')
      | (.error x, st') => (.error x, st')
    else fun st => let p := H.opaqueW (.call callee args sp) st.1; (p.1, (p.2, st.2))
  | .arg _ e => sem e
  | n => fun st => let p := H.opaqueW n st.1; (p.1, (p.2, st.2))
def semList : List Node → S H → Except H.X (List H.V) × S H
  | [], st => (.ok [], st)
  | e :: es, st =>
    match sem e st with
    | (.ok v, st') =>
      match semList es st' with
      | (.ok vs, st'') => (.ok (v :: vs), st'')
      | (.error x, st'') => (.error x, st'')
    | (.error x, st') => (.error x, st')
end

/-- `d'` (rewritten, over world × temporaries) simulates `d` (source, over the world): same outcome,
    same world, and `d'` writes temporaries only in `[lo, hi)` -/
def Sim (lo hi : Nat) (d : DenW H) (d' : Den H) : Prop :=
  ∀ (w : H.W) (t : T H),
    (d' (w, t)).1 = (d w).1 ∧ (d' (w, t)).2.1 = (d w).2 ∧
    ∀ n, (n < lo ∨ hi ≤ n) → (d' (w, t)).2.2 n = t n

end IastModel.Sem

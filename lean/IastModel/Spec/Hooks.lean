import IastModel.Lemmas.Tree
import IastModel.Config
/-
  Specification vocabulary about hook call sites: what a `_ddiast.<name>(…)` call is, the list of hook
  sites of a tree, and the executable oracles for C05 (names), C12 (status ⇔ hooks) and C15 (metrics).
-/
namespace IastModel

/-- `_ddiast.<name>(…)` -/
def hookName? : Node → Option String
  | .call (.member (.ident (.user ns) _) (.pname name _) _) _ _ =>
    if ns == Generated.ddGlobalNamespace then some name else none
  | _ => none

def isHook (n : Node) : Bool := (hookName? n).isSome

/-- all hook call sites of a tree, in pre-order -/
def hooks (n : Node) : List Node := Node.collect isHook n

def hookCount (n : Node) : Nat := Node.count isHook n

def hookNames (n : Node) : List String := (hooks n).filterMap hookName?

/-- the tree mentions the hook namespace identifier -/
def mentionsNs : Node → Bool
  | .ident (.user s) _ => s == Generated.ddGlobalNamespace
  | _ => false

def NoNs (n : Node) : Bool := Node.all (fun k => !mentionsNs k) n

/-! ### C05: only configured replacement names -/

def namesConfigured (cfg : Config) (names : List String) : Bool :=
  names.all fun nm => cfg.dsts.contains nm

/-! ### C15: telemetry tags ↦ replacement names -/

/-- the replacement name a telemetry tag stands for under `cfg` -/
def tagDst (cfg : Config) (tag : String) : Option String :=
  if tag == Generated.addTag || tag == Generated.addAssignTag then some cfg.plusName
  else if tag == Generated.tplTag then some cfg.tplName
  else (cfg.get tag).map (·.dst)

def countStr (xs : List String) (x : String) : Nat := (xs.filter (· == x)).length

/-- per replacement name, the debug counts of the tags that map to it must add up to the number of
    hook sites with that name -/
def debugPartitions (cfg : Config) (debug : List (String × Nat)) (names : List String) : Bool :=
  let dsts := (names ++ debug.filterMap (fun p => tagDst cfg p.1)).eraseDups
  debug.all (fun p => (tagDst cfg p.1).isSome) &&
  dsts.all fun d =>
    ((debug.filter fun p => tagDst cfg p.1 == some d).map (·.2)).sum == countStr names d

end IastModel

/-
  Source-map codecs and lookup (C09, C10, C11): Base64-VLQ, the `mappings` string, Base64, and
  "greatest token at or before a position".  These are the verified decoders the checks use to read
  the maps the implementation emits; they also model `decodeVLQ` / `_parseMap` / `findEntry` of
  js/source-map/node_source_map.js.
-/
namespace IastModel.Codec

/-! ### Base64-VLQ on digit lists (a digit is a number < 64) -/

/-- sign goes to bit 0 -/
def toVlqSigned (n : Int) : Nat :=
  if n < 0 then 2 * n.natAbs + 1 else 2 * n.natAbs

def fromVlqSigned (v : Nat) : Int :=
  if v % 2 == 1 then -((v / 2 : Nat) : Int) else ((v / 2 : Nat) : Int)

/-- little-endian base-32 digits, continuation bit 32 on all but the last -/
def encodeUnsigned (fuel : Nat) (v : Nat) : List Nat :=
  match fuel with
  | 0 => [v % 32]
  | fuel + 1 => if v < 32 then [v] else (v % 32 + 32) :: encodeUnsigned fuel (v / 32)

def encodeVlq (n : Int) : List Nat := encodeUnsigned (toVlqSigned n) (toVlqSigned n)

/-- decode one VLQ from the front of a digit list: value (unsigned) and the rest -/
def decodeUnsigned : List Nat → Nat → Nat → Option (Nat × List Nat)
  | [], _, _ => none
  | d :: ds, shift, acc =>
    let acc' := acc + (d % 32) * 2 ^ shift
    if d / 32 % 2 == 1 then decodeUnsigned ds (shift + 5) acc' else some (acc', ds)

def decodeVlq (ds : List Nat) : Option (Int × List Nat) :=
  (decodeUnsigned ds 0 0).map fun p => (fromVlqSigned p.1, p.2)

theorem fromVlqSigned_toVlqSigned (n : Int) : fromVlqSigned (toVlqSigned n) = n := by
  unfold fromVlqSigned toVlqSigned
  by_cases hn : n < 0
  · rw [if_pos hn]
    have h1 : (2 * n.natAbs + 1) % 2 = 1 := by omega
    have h2 : (2 * n.natAbs + 1) / 2 = n.natAbs := by omega
    simp only [h1, h2, beq_self_eq_true, if_true]
    omega
  · rw [if_neg hn]
    have h1 : (2 * n.natAbs) % 2 = 0 := by omega
    have h2 : (2 * n.natAbs) / 2 = n.natAbs := by omega
    simp only [h1, h2]
    have : ((0:Nat) == 1) = false := by decide
    simp only [this]
    simp
    omega

theorem decodeUnsigned_encodeUnsigned (fuel v : Nat) (hf : v ≤ fuel) (rest : List Nat) (shift acc : Nat) :
    decodeUnsigned (encodeUnsigned fuel v ++ rest) shift acc = some (acc + v * 2 ^ shift, rest) := by
  induction fuel generalizing v shift acc with
  | zero =>
    have : v = 0 := by omega
    subst this
    simp [encodeUnsigned, decodeUnsigned]
  | succ fuel ih =>
    unfold encodeUnsigned
    by_cases hv : v < 32
    · rw [if_pos hv]
      have h1 : v % 32 = v := Nat.mod_eq_of_lt hv
      have h2 : v / 32 = 0 := Nat.div_eq_of_lt hv
      simp [decodeUnsigned, h1, h2]
    · rw [if_neg hv]
      have h1 : (v % 32 + 32) % 32 = v % 32 := by omega
      have h2 : (v % 32 + 32) / 32 % 2 = 1 := by omega
      have hle : v / 32 ≤ fuel := by omega
      simp only [List.cons_append, decodeUnsigned, h1, h2, beq_self_eq_true, if_true]
      rw [ih (v / 32) hle]
      congr 2
      have hv' : v = v % 32 + 32 * (v / 32) := (Nat.mod_add_div v 32).symm
      have hp : (2:Nat) ^ (shift + 5) = 2 ^ shift * 32 := by rw [Nat.pow_add]
      rw [hp]
      generalize 2 ^ shift = p
      generalize v % 32 = a at *
      generalize v / 32 = b at *
      subst hv'
      rw [Nat.add_mul, Nat.add_assoc]
      congr 1
      rw [Nat.mul_comm p 32, ← Nat.mul_assoc, Nat.mul_comm b 32]

/-- C09/C10/C11: decoding what was encoded gives the number back and consumes exactly its digits -/
theorem decodeVlq_encodeVlq (n : Int) (rest : List Nat) :
    decodeVlq (encodeVlq n ++ rest) = some (n, rest) := by
  unfold decodeVlq encodeVlq
  rw [decodeUnsigned_encodeUnsigned _ _ (Nat.le_refl _)]
  simp [fromVlqSigned_toVlqSigned n]

/-! ### the `mappings` string -/

def base64Digits : String := "ABCDEFGHIJKLMNOPQRSTUVWXYZabcdefghijklmnopqrstuvwxyz0123456789+/"

def digitOfChar (c : Char) : Option Nat :=
  let n := c.toNat
  if 65 ≤ n && n ≤ 90 then some (n - 65)
  else if 97 ≤ n && n ≤ 122 then some (n - 97 + 26)
  else if 48 ≤ n && n ≤ 57 then some (n - 48 + 52)
  else if c == '+' then some 62
  else if c == '/' then some 63
  else none

/-- one mapping: generated position and, when present, the original position (source index, line,
    column) and name index -/
structure Token where
  genLine : Nat
  genCol : Nat
  src : Option (Nat × Nat × Nat)
  name : Option Nat
deriving Repr, DecidableEq, Inhabited

/-- decode all VLQ numbers of one segment -/
def decodeSegment (fuel : Nat) (ds : List Nat) : Option (List Int) :=
  match fuel with
  | 0 => if ds.isEmpty then some [] else none
  | fuel + 1 =>
    if ds.isEmpty then some []
    else
      match decodeVlq ds with
      | none => none
      | some (v, rest) => (decodeSegment fuel rest).map (v :: ·)

structure DecState where
  genCol : Int := 0
  srcIdx : Int := 0
  srcLine : Int := 0
  srcCol : Int := 0
  nameIdx : Int := 0
deriving Repr

/-- decode a `mappings` string into absolute tokens (`none`: malformed) -/
def decodeMappings (mappings : String) : Option (List Token) := Id.run do
  let mut st : DecState := {}
  let mut out : Array Token := #[]
  let mut line := 0
  for lineStr in mappings.splitOn ";" do
    st := { st with genCol := 0 }
    if !lineStr.isEmpty then
      for segStr in lineStr.splitOn "," do
        if segStr.isEmpty then continue
        let ds := segStr.toList.map digitOfChar
        if ds.any Option.isNone then return none
        match decodeSegment (segStr.length + 1) (ds.filterMap id) with
        | none => return none
        | some [c] =>
          st := { st with genCol := st.genCol + c }
          out := out.push { genLine := line, genCol := st.genCol.toNat, src := none, name := none }
        | some [c, si, sl, sc] =>
          st := { st with genCol := st.genCol + c, srcIdx := st.srcIdx + si, srcLine := st.srcLine + sl, srcCol := st.srcCol + sc }
          out := out.push { genLine := line, genCol := st.genCol.toNat, src := some (st.srcIdx.toNat, st.srcLine.toNat, st.srcCol.toNat), name := none }
        | some [c, si, sl, sc, ni] =>
          st := { st with genCol := st.genCol + c, srcIdx := st.srcIdx + si, srcLine := st.srcLine + sl, srcCol := st.srcCol + sc, nameIdx := st.nameIdx + ni }
          out := out.push { genLine := line, genCol := st.genCol.toNat, src := some (st.srcIdx.toNat, st.srcLine.toNat, st.srcCol.toNat), name := some st.nameIdx.toNat }
        | some _ => return none
    line := line + 1
  return some out.toList

theorem encodeUnsigned_ne_nil (fuel v : Nat) : encodeUnsigned fuel v ≠ [] := by
  cases fuel with
  | zero => simp [encodeUnsigned]
  | succ f => unfold encodeUnsigned; split <;> simp

theorem encodeVlq_ne_nil (n : Int) : encodeVlq n ≠ [] := encodeUnsigned_ne_nil _ _

/-- a whole segment survives the round trip -/
theorem decodeSegment_encode (xs : List Int) (fuel : Nat) (h : xs.length ≤ fuel) :
    decodeSegment fuel (xs.flatMap encodeVlq) = some xs := by
  induction xs generalizing fuel with
  | nil => cases fuel <;> simp [decodeSegment]
  | cons x xs ih =>
    cases fuel with
    | zero => simp at h
    | succ f =>
      simp only [List.flatMap_cons, decodeSegment]
      have hne : (encodeVlq x ++ List.flatMap encodeVlq xs).isEmpty = false := by
        cases hx : encodeVlq x with
        | nil => exact absurd hx (encodeVlq_ne_nil x)
        | cons a as => simp
      simp only [hne, Bool.false_eq_true, if_false, decodeVlq_encodeVlq]
      rw [ih f (by simpa using h)]
      simp

/-! ### lookup: the greatest token at or before a generated position -/

def posLe (l1 c1 l2 c2 : Nat) : Bool := l1 < l2 || (l1 == l2 && c1 ≤ c2)

/-- greatest-lower-bound lookup on a token list sorted by generated position: the last token whose
    position is at or before `(line, col)` -/
def lookup (toks : List Token) (line col : Nat) : Option Token :=
  (toks.filter fun t => posLe t.genLine t.genCol line col).getLast?

/-- re-targeting tokens without moving their generated positions commutes with lookup: this is the
    composition law behind source-map chaining (C10) -/
theorem lookup_map (f : Token → Token) (hf : ∀ t, (f t).genLine = t.genLine ∧ (f t).genCol = t.genCol)
    (toks : List Token) (line col : Nat) :
    lookup (toks.map f) line col = (lookup toks line col).map f := by
  unfold lookup
  have : (toks.map f).filter (fun t => posLe t.genLine t.genCol line col)
       = (toks.filter (fun t => posLe t.genLine t.genCol line col)).map f := by
    rw [List.filter_map]
    congr 2
    funext t
    simp [Function.comp, (hf t).1, (hf t).2]
  rw [this, List.getLast?_map]

end IastModel.Codec

import IastModel.Lemmas.Tree
/-
  C07: directive prologues.  A directive is a leading expression statement whose expression is an
  un-parenthesised string literal (ECMA-262 14.1.1); its identity is its raw spelling.
-/
namespace IastModel

def directiveRaw? : Node → Option String
  | .exprStmt (.lit "StringLiteral" _ raw _) _ => some raw
  | _ => none

def isDirectiveStmt (n : Node) : Bool := (directiveRaw? n).isSome

/-- the directive prologue of a statement list -/
def directivesOf (stmts : List Node) : List String :=
  (stmts.takeWhile isDirectiveStmt).filterMap directiveRaw?

/-- `Script.body` / `Module.body` -/
def programBody : Node → List Node
  | .other _ _ ("body" :: _) (.arr body :: _) => body
  | _ => []

def isBlock : Node → Bool
  | .block .. => true
  | _ => false

/-- every block statement of the tree (function bodies included) with its span and directive prologue -/
def blockDirectives (n : Node) : List (Span × List String) :=
  (Node.collect isBlock n).filterMap fun b =>
    match b with
    | .block ss sp => some (sp, directivesOf ss)
    | _ => none

/-- oracle: the program and every block that came from the input keep their directive prologue -/
def directivesPreserved (inp out : Node) : Bool :=
  directivesOf (programBody inp) == directivesOf (programBody out) &&
  let outBlocks := blockDirectives out
  (blockDirectives inp).all fun b =>
    b.1.isDummy ||
    (outBlocks.any (fun b' => b'.1 == b.1) &&
     outBlocks.all fun b' => b'.1 != b.1 || b'.2 == b.2)

end IastModel

import IastModel.Spec.Erase
import IastModel.Rewriter.Visitor
/-
  Vocabulary of the C02 theorems: `strip` (forget every source position), `ESim` (the erased tree is the
  source tree up to positions, and carries the source's own position or none), and `srcOk`, the
  decidable well-formedness of a *source* tree under which `erase` is the identity on it — what a
  parsed input satisfies: no reserved temporary, no mention of the hook namespace, parentheses wider
  than what they enclose, real (non-dummy) positions on the nodes whose position `erase` looks at.
  The driver evaluates `srcOk` on every input and reports it with the other theorem hypotheses.
-/
namespace IastModel
open Node

mutual
def strip : Node → Node
  | .atom s => .atom s
  | .arr xs => .arr (stripL xs)
  | .obj ns vs => .obj ns (stripL vs)
  | .other k _ ns vs => .other k Span.dummy ns (stripL vs)
  | .lit k v r _ => .lit k v r Span.dummy
  | .ident n _ => .ident n Span.dummy
  | .pname n _ => .pname n Span.dummy
  | .bin op l r _ => .bin op (strip l) (strip r) Span.dummy
  | .assign op l r _ => .assign op (strip l) (strip r) Span.dummy
  | .tpl es qs _ => .tpl (stripL es) (stripL qs) Span.dummy
  | .call c as _ => .call (strip c) (stripL as) Span.dummy
  | .arg s e => .arg (s.map fun _ => Span.dummy) (strip e)
  | .member o p _ => .member (strip o) (strip p) Span.dummy
  | .optChain b x _ => .optChain b (strip x) Span.dummy
  | .optCall c as _ => .optCall (strip c) (stripL as) Span.dummy
  | .unary op a _ => .unary op (strip a) Span.dummy
  | .arrow ps b at' _ => .arrow (stripL ps) (strip b) at' Span.dummy
  | .paren e _ => .paren (strip e) Span.dummy
  | .seq es _ => .seq (stripL es) Span.dummy
  | .cond t c a _ => .cond (strip t) (strip c) (strip a) Span.dummy
  | .array es _ => .array (stripL es) Span.dummy
  | .block ss _ => .block (stripL ss) Span.dummy
  | .ifStmt t c a _ => .ifStmt (strip t) (strip c) (strip a) Span.dummy
  | .exprStmt e _ => .exprStmt (strip e) Span.dummy
def stripL : List Node → List Node
  | [] => []
  | x :: xs => strip x :: stripL xs
end

/-- the expression inside an argument wrapper -/
def argInner : Node → Node
  | .arg _ e => argInner e
  | n => n

/-- reserved for the lowered optional chains (not inside the theorems yet): the nodes whose erased form
    carries no position.  Constantly false for now, which makes `spanRel` say "same position". -/
def isOptN : Node → Bool := fun _ => false

/-- `a` carries the position of `b`; a rebuilt optional chain carries none -/
def spanRel (a b : Node) : Prop := a.span = b.span ∨ (isOptN b = true ∧ a.span = Span.dummy)

/-- not the `[...x]` shape that `erase` unwraps when it is assigned to a temporary -/
def noSp : Node → Prop
  | .arg _ e => noSp e
  | X => unSpread X = X

/-- `X` is the source tree `e` up to positions, carries the source's own position, and is not the
    `[...x]` shape that `erase` unwraps -/
def ESim (X e : Node) : Prop := strip X = strip e ∧ spanRel X e ∧ noSp X

def SimL (Xs es : List Node) : Prop := stripL Xs = stripL es

/-- the `+=` re-sugaring of `erase` would fire on this (source) assignment -/
def looksLowered (op : String) (r : Node) (sp : Span) : Bool :=
  op == "=" && (match r with
    | .bin "+" _ _ bsp => bsp == sp
    | _ => false)

/-- an arrow body that `erase` would take for an injected `{ return e }` -/
def looksInjectedBody : Node → Bool
  | .block [.other "ReturnStatement" rsp ["argument"] [_]] bsp => bsp.isDummy && rsp.isDummy
  | _ => false

/-- `f.call(a, …)` where `f`'s object sits at the position of `a` (two distinct source nodes never do) -/
def callThisClash : Node → Bool
  | .call (.member (.member o _ _) (.pname _ _) _) (.arg none a :: _) _ => o.span == a.span || o.span.isDummy
  | _ => false

/-- nodes the operation visitor rewrites -/
def inertTNode : Node → Bool
  | .bin .. | .assign .. | .tpl .. | .call .. | .optChain .. | .arrow .. | .block .. => false
  | _ => true

/-- nothing in the tree is rewritten by the operation visitor (the quasis of a template literal) -/
def inertT (n : Node) : Bool := Node.all inertTNode n

def isArgN : Node → Bool
  | .arg .. => true
  | _ => false

/-- local well-formedness of one source node -/
def srcNode : Node → Bool
  | .ident (.temp _) _ => false
  | .ident (.user x) _ => x != Generated.ddGlobalNamespace
  | .assign op _ r sp => !sp.isDummy && !looksLowered op r sp
  | .paren e sp => !sp.isDummy && e.span != sp
  | .cond _ _ _ sp => !sp.isDummy
  | .arrow _ body _ _ => !looksInjectedBody body
  | .call c as sp => !callThisClash (.call c as sp) && as.all isArgN
  | .optCall _ as _ => as.all isArgN
  | .array _ sp => !sp.isDummy
  | .tpl _ qs _ => qs.all inertT
  | .block ss sp =>
    -- what is inside a block lies inside its position; a block without position (the one the rewriter wraps an
    -- arrow body in) holds no declaration
    if sp.isDummy then ss.all (fun s => match s with | .other k _ _ _ => k != "VariableDeclaration" | _ => false)
    else ss.all (fun s => s.span != sp)
  | _ => true

def noOptK (cfg : Config) : Node → Bool
  | .optChain optional base _ => !ocTrigger cfg optional base
  | _ => true

/-- no optional chain of the tree is lowered under `cfg`: none is a (non-optional) call whose callee reads a
    configured method by name off a chain link — `a?.b.trim()` with `trim` configured is excluded,
    `a?.b.c`, `a?.b(x)`, `a?.trim` and every chain when `trim` is not configured are not -/
def noOpt (cfg : Config) (n : Node) : Bool := Node.all (noOptK cfg) n

/-- the tree is a well-formed source tree -/
def srcOk (n : Node) : Bool := Node.all srcNode n

def srcOkL (l : List Node) : Bool := l.all srcOk

end IastModel

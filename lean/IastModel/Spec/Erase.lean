import IastModel.Spec.Scope
import IastModel.Spec.Hooks
/-
  C02: erasing the instrumentation.  `erase` undoes every shape the rewriter injects:

  * `_ddiast.<name>(first, …)`              ↦ `first`
  * `(t0 = e0, …, last)` (tight parentheses, head assigns a temporary) ↦ `last`, with each temporary
    replaced at its use by the expression assigned to it (environment threaded in evaluation order)
  * `[...x]` assigned to a spread temporary ↦ `x`
  * `t1.call(t0, args)` with `t1 ↦ r.m`, `t0 ↦ r`  ↦ `r.m(args)`; otherwise ↦ `<t1>.call(<t0>, args)`
  * `T = <sum carrying the assignment's own span>`   ↦ `T += right`
  * tight parentheses added around a sum / a sequence ↦ removed
  * `(t = base, t == null ? undefined : rest)` ↦ the optional chain
  * `{ return e }` with no source position as arrow body ↦ `e`
  * injected `let`, file prologue ↦ removed

  Temporaries cannot occur in an accepted input (reserved prefix ⇒ refusal), which is what makes each
  of these shapes recognisable.  `erase` is total; on trees that are not outputs of the rewriter it
  simply leaves unknown material in place.
-/
namespace IastModel

abbrev Env := List (Nat × Node)

def Env.get (σ : Env) (n : Nat) : Option Node := (σ.find? (·.1 == n)).map (·.2)

def isTempAssign : Node → Bool
  | .assign "=" (.ident (.temp _) _) _ _ => true
  | _ => false

def headIsTempAssign : List Node → Bool
  | e :: _ => isTempAssign e
  | [] => false

/-- `[...x]` built for a spread temporary (no source position) ↦ `x` -/
def unSpread : Node → Node
  | .array [.arg (some s) x] asp => if asp.isDummy && s.isDummy then x else .array [.arg (some s) x] asp
  | n => n

/-- re-sugar a lowered `+=`: the sum carries the assignment's own span -/
def resugarAssign (op : String) (l r : Node) (sp : Span) : Node :=
  if op == "=" then
    match r with
    | .bin "+" _ right bsp => if bsp == sp then .assign "+=" l right sp else .assign op l r sp
    | _ => .assign op l r sp
  else .assign op l r sp

/-- rebuild the optional chain from the lowered spine; `t` is the guard temporary (left unresolved in
    the spine), `base` what was assigned to it -/
def reChain (t : Nat) (base : Node) : Node → Node
  | .call c args sp =>
    match c with
    | .member (.ident (.temp t') _) (.pname "call" _) _ =>
      if t' == t then .optChain true (.optCall base (args.drop 1) sp) sp
      else .optChain false (.optCall (reChain t base c) args sp) sp
    | .ident (.temp t') _ =>
      if t' == t then .optChain true (.optCall base args sp) sp
      else .optChain false (.optCall c args sp) sp
    | _ => .optChain false (.optCall (reChain t base c) args sp) sp
  | .member o p sp =>
    match o with
    | .ident (.temp t') _ =>
      if t' == t then .optChain true (.member base p sp) sp
      else .optChain false (.member o p sp) sp
    | _ => .optChain false (.member (reChain t base o) p sp) sp
  | .optChain opt (.member o p msp) sp => .optChain opt (.member (reChain t base o) p msp) sp
  | .optChain opt (.optCall c args csp) sp => .optChain opt (.optCall (reChain t base c) args csp) sp
  | n => n

def isLoweredGuard : Node → Option Nat
  | .cond (.bin "==" (.ident (.temp t) _) (.lit "NullLiteral" _ _ _) _) (.ident (.user "undefined") usp) _ csp =>
    if csp.isDummy && usp.isDummy then some t else none
  | _ => none

/-- the call through a hoisted function value: `tf.call(this, args…)` / `tf.apply(this, [args…])` -/
def resolveCall (f : Node) (ca : String) (casp msp : Span) (args' : List Node) (sp : Span) : Node :=
  let proto := Node.call (.member f (.pname ca casp) msp) args' sp
  if ca == Generated.callMethodName then
    match args', f with
    | .arg none this' :: rest', .member o p fsp =>
      if o == this' then .call (.member this' p fsp) rest' sp else proto
    | _, _ => proto
  else proto

/-- position of the injected `let` (right after the directive prologue), if there is one -/
def injectedLetIndex (stmts : List Node) : Option Nat :=
  let i := (stmts.takeWhile isDirectiveStmt).length
  match stmts.drop i with
  | s :: _ => if (injectedLet? s).isSome then some i else none
  | [] => none

/-- position of the injected `let` of a block: the first statement that is a declaration of temporaries
    and carries the block's own position (which is what the rewriter gives it) -/
def injectedLetAt (sp : Span) (stmts : List Node) : Option Nat :=
  stmts.findIdx? (fun s => (injectedLet? s).isSome && s.span == sp)

def dropAt (xs : List Node) : Option Nat → List Node
  | some i => xs.take i ++ xs.drop (i + 1)
  | none => xs

/-- callee shapes `erase` treats specially -/
inductive CalleeKind where
  | hook | viaTemp (t : Nat) (ca : String) (casp msp : Span) | plain

def calleeKind : Node → CalleeKind
  | .member (.ident (.user ns) _) (.pname _ _) _ =>
    if ns == Generated.ddGlobalNamespace then .hook else .plain
  | .member (.ident (.temp t) _) (.pname ca casp) msp => .viaTemp t ca casp msp
  | _ => .plain

def tempTarget? : Node → Option Nat
  | .ident (.temp n) _ => some n
  | _ => none

mutual
def erase (σ : Env) : Node → Node × Env
  | .atom s => (.atom s, σ)
  | .arr xs => let (xs', σ') := eraseL σ xs; (.arr xs', σ')
  | .obj ns vs => let (vs', σ') := eraseL σ vs; (.obj ns vs', σ')
  | .other k sp ns vs => let (vs', σ') := eraseL σ vs; (.other k sp ns vs', σ')
  | .lit k v r sp => (.lit k v r sp, σ)
  | .ident (.temp n) sp => ((σ.get n).getD (.ident (.temp n) sp), σ)
  | .ident nm sp => (.ident nm sp, σ)
  | .pname nm sp => (.pname nm sp, σ)
  | .bin op l r sp =>
    let (l', σ1) := erase σ l
    let (r', σ2) := erase σ1 r
    (.bin op l' r' sp, σ2)
  | .assign op left r sp =>
    match tempTarget? left with
    | some n =>
      let (r', σ1) := erase σ r
      let r'' := unSpread r'
      (r'', (n, r'') :: σ1)
    | none =>
      let (l', σ1) := erase σ left
      let (r', σ2) := erase σ1 r
      (resugarAssign op l' r' sp, σ2)
  | .tpl es qs sp =>
    let (es', σ1) := eraseL σ es
    (.tpl es' qs sp, σ1)
  | .call c args sp =>
    match calleeKind c with
    | .hook =>
      let (args', σ1) := eraseL σ args
      match args' with
      | .arg none first' :: _ => (first', σ1)
      | _ => (.call c args' sp, σ1)
    | .viaTemp t ca casp msp =>
      let (args', σ1) := eraseL σ args
      match σ.get t with
      | some f => (resolveCall f ca casp msp args' sp, σ1)
      | none => (.call c args' sp, σ1)
    | .plain =>
      let (c', σ1) := erase σ c
      let (args', σ2) := eraseL σ1 args
      (.call c' args' sp, σ2)
  | .arg s e => let (e', σ') := erase σ e; (.arg s e', σ')
  | .member o p sp =>
    let (o', σ1) := erase σ o
    let (p', σ2) := erase σ1 p
    (.member o' p' sp, σ2)
  | .optChain opt b sp => let (b', σ') := erase σ b; (.optChain opt b' sp, σ')
  | .optCall c args sp =>
    let (c', σ1) := erase σ c
    let (args', σ2) := eraseL σ1 args
    (.optCall c' args' sp, σ2)
  | .unary op a sp => let (a', σ') := erase σ a; (.unary op a' sp, σ')
  | .arrow ps body at' sp =>
    let (ps', σ1) := eraseL σ ps
    let (b', σ2) := erase σ1 body
    match b' with
    | .block [.other "ReturnStatement" rsp ["argument"] [e']] bsp =>
      if bsp.isDummy && rsp.isDummy then (.arrow ps' e' at' sp, σ2)
      else (.arrow ps' b' at' sp, σ2)
    | _ => (.arrow ps' b' at' sp, σ2)
  | .paren e sp =>
    let (e', σ') := erase σ e
    -- tight parentheses are injected ones
    if e.span == sp then (e', σ') else (.paren e' sp, σ')
  | .seq es sp =>
    if headIsTempAssign es then eraseSeq σ es
    else let (es', σ') := eraseL σ es; (.seq es' sp, σ')
  | .cond t c a sp =>
    match isLoweredGuard (.cond t c a sp) with
    | some g =>
      let base := (σ.get g).getD (.ident (.temp g) Span.dummy)
      let (a', σ1) := erase ((g, .ident (.temp g) Span.dummy) :: σ) a
      (reChain g base a', σ1)
    | none =>
      let (t', σ1) := erase σ t
      let (c', σ2) := erase σ1 c
      let (a', σ3) := erase σ2 a
      (.cond t' c' a' sp, σ3)
  | .array es sp => let (es', σ') := eraseL σ es; (.array es' sp, σ')
  | .block ss sp =>
    -- a block declares its own temporaries: bindings made inside do not escape (shadowing)
    let (ss', _) := eraseL σ ss
    (.block (dropAt ss' (injectedLetAt sp ss)) sp, σ)
  | .ifStmt t c a sp =>
    let (t', σ1) := erase σ t
    let (c', σ2) := erase σ1 c
    let (a', σ3) := erase σ2 a
    (.ifStmt t' c' a' sp, σ3)
  | .exprStmt e sp => let (e', σ') := erase σ e; (.exprStmt e' sp, σ')
def eraseL (σ : Env) : List Node → List Node × Env
  | [] => ([], σ)
  | x :: xs =>
    let (x', σ1) := erase σ x
    let (xs', σ2) := eraseL σ1 xs
    (x' :: xs', σ2)
def eraseSeq (σ : Env) : List Node → Node × Env
  | [] => (.seq [] Span.dummy, σ)
  | [e] => erase σ e
  | e :: es =>
    let (_, σ1) := erase σ e
    eraseSeq σ1 es
end

/-- remove the file prologue (it sits right after the directive prologue) -/
def dropPrologue (prologue : List Node) (body : List Node) : List Node :=
  let i := (body.takeWhile isDirectiveStmt).length
  let rest := body.drop i
  if !prologue.isEmpty && Node.beqL (rest.take prologue.length) prologue then
    body.take i ++ rest.drop prologue.length
  else body

/-- erase a whole program -/
def eraseProgram (prologue : List Node) (out : Node) : Node :=
  match out with
  | .other k sp ("body" :: ns) (.arr body :: vs) =>
    (erase [] (.other k sp ("body" :: ns) (.arr (dropPrologue prologue body) :: vs))).1
  | n => (erase [] n).1

/-- some temporary is still there after erasing (a use that was never assigned) -/
def hasTemp (n : Node) : Bool := !(Node.all (fun k => (tempOf? k).isNone) n)

end IastModel

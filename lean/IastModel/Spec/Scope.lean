import IastModel.Spec.Directives
/-
  C06 (static half): every injected temporary is declared by the injected `let` of the block whose own
  region uses it, nothing else is declared, none is left undeclared (in particular none outside a
  block), and no use sits in a deferred position (parameter default, instance field initialiser) of the
  declaring block.  A reserved-prefix identifier anywhere in the input means the rewrite is refused.
-/
namespace IastModel

def tempOf? : Node → Option Nat
  | .ident (.temp n) _ => some n
  | _ => none

def declaratorTemp? : Node → Option Nat
  | .other "VariableDeclarator" _ ["id", "init", "definite"] [.ident (.temp n) _, .atom "null", _] => some n
  | _ => none

/-- the temporaries declared by an injected `let` statement (all declarators are temporaries) -/
def injectedLet? : Node → Option (List Nat)
  | .other "VariableDeclaration" _ ["kind", "declare", "declarations"] [.atom "\"let\"", _, .arr decls] =>
    let ids := decls.map declaratorTemp?
    if !ids.isEmpty && ids.all Option.isSome then some (ids.filterMap id) else none
  | _ => none

/-- children that are evaluated in a later activation than the enclosing block's own code -/
def deferredKid (n : Node) (i : Nat) : Option String :=
  match n with
  | .other k _ names _ =>
    -- function-like nodes: their parameters run at call time
    if names.getD i "" == "params" && names.contains "body" then some "function-parameter"
    -- instance field initialisers run at construction time
    else if (k == "ClassProperty" || k == "PrivateProperty") && names.getD i "" == "value" &&
      (match n.field? "isStatic" with
      | some (.atom "true") => false
      | _ => true) then some "field-initialiser"
    else none
  | .arrow ps _ _ _ => if i < ps.length then some "arrow-parameter" else none
  | _ => none

/-- temporaries occurring in the own region of a block (nested blocks excluded), with a flag telling
    whether the occurrence is in a deferred position -/
def ownTemps (deferred : Option String) (n : Node) : List (Nat × Option String) :=
  if isBlock n then []
  else
    (match tempOf? n with | some t => [(t, deferred)] | none => []) ++
    ((n.kids.zipIdx).attach.map fun x => ownTemps (deferred.orElse fun _ => deferredKid n x.1.2) x.1.1).flatten
termination_by sizeOf n
decreasing_by
  have h := x.2
  have : x.1.1 ∈ n.kids := (List.mem_zipIdx_iff_getElem?.mp (by simpa using h)) |> fun h' => List.mem_of_getElem? h'
  exact Node.sizeOf_lt_of_mem_kids this

structure ScopeIssue where
  cls : String
  sp : Span
  temp : Nat
deriving Repr, Inhabited

def dropInjectedLet (stmts : List Node) : List Node × List Nat :=
  let pre := stmts.takeWhile isDirectiveStmt
  match stmts.drop pre.length with
  | s :: rest =>
    match injectedLet? s with
    | some ids => (pre ++ rest, ids)
    | none => (stmts, [])
  | [] => (stmts, [])

/-- issues of one block: uses not declared here, declarations not used, uses in deferred positions -/
def blockIssues (b : Node) : List ScopeIssue :=
  match b with
  | .block stmts sp =>
    let (body, declared) := dropInjectedLet stmts
    let uses := (body.map (ownTemps none)).flatten
    (uses.filterMap fun u => if declared.contains u.1 then none else some ⟨"temp-not-declared-in-its-block", sp, u.1⟩) ++
    (declared.filterMap fun t => if uses.any (·.1 == t) then none else some ⟨"declared-temp-unused", sp, t⟩) ++
    (uses.filterMap fun u => match u.2 with
      | some kind => some ⟨"temp-in-deferred-position-of-declaring-block/" ++ kind, sp, u.1⟩
      | none => none) ++
    (if declared.eraseDups.length != declared.length then [⟨"temp-declared-twice", sp, 0⟩] else [])
  | _ => []

/-- temporaries outside any block -/
def topLevelTemps (out : Node) : List ScopeIssue :=
  (ownTemps none out).map fun u => ⟨"temp-outside-any-block", Span.dummy, u.1⟩

def scopeIssues (out : Node) : List ScopeIssue :=
  topLevelTemps out ++ ((Node.collect isBlock out).map blockIssues).flatten

/-! ### not reassigned while live

A temporary assigned by an element of an injected sequence `(t = e, …, use(t))` is live until the last
later element that mentions it; no element in between may assign it again (in its own region — nested
blocks have their own temporaries). -/

/-- some node of the own region (nested blocks excluded: they declare their own temporaries) satisfies `p` -/
def ownAny (p : Node → Bool) (n : Node) : Bool :=
  if isBlock n then false
  else p n || n.kids.attach.any fun x => ownAny p x.1
termination_by sizeOf n
decreasing_by exact Node.sizeOf_lt_of_mem_kids x.2

def assignsTemp (t : Nat) (n : Node) : Bool :=
  ownAny (fun k => match k with
    | .assign _ (.ident (.temp m) _) _ _ => m == t
    | _ => false) n

def mentionsTemp (t : Nat) (n : Node) : Bool :=
  ownAny (fun k => match k with
    | .ident (.temp m) _ => m == t
    | _ => false) n

def assignedTemp? : Node → Option (Nat × Node)
  | .assign "=" (.ident (.temp t) _) rhs _ => some (t, rhs)
  | _ => none

/-- temporaries that an element of the sequence assigns again before their last later mention -/
def seqReassigned (elems : List Node) : List Nat :=
  (elems.zipIdx.filterMap fun (e, i) =>
    match assignedTemp? e with
    | some (t, _) =>
      let later := elems.drop (i + 1)
      -- index (within `later`) of the last element mentioning `t`
      let lastUse := (later.zipIdx.filter fun (x, _) => mentionsTemp t x).map (·.2) |>.getLast?
      match lastUse with
      | some j => if (later.take (j + 1)).any (assignsTemp t) then some t else none
      | none => none
    | none => none)

def reassignedWhileLive (out : Node) : List ScopeIssue :=
  ((Node.collect (fun k => match k with | .seq .. => true | _ => false) out).map fun sq =>
    match sq with
    | .seq elems sp => (seqReassigned elems).map fun t => ⟨"temp-reassigned-while-live", sp, t⟩
    | _ => []).flatten

/-- the input mentions the reserved prefix in an identifier -/
def mentionsReserved (pfx : String) (inp : Node) : Bool :=
  !(Node.all (fun k => match k with
    | .ident (.user s) _ => !s.startsWith pfx
    | .ident (.temp _) _ => false
    | _ => true) inp)

end IastModel

import IastModel.Spec.Hooks
/-
  C04: which occurrences of the *input* must be instrumented, written from the property text and
  independently of the rewriter model, and the oracle "every such occurrence has its hook in the output".
  A hook call carries the span of the operation it instruments, which is how the two are matched.
-/
namespace IastModel

structure CovCtx where
  inBlock : Bool := false        -- inside some block statement / function body
  excluded : Bool := false       -- under `delete`, in arrow parameters, in a template with a literal substitution
deriving Repr, Inhabited

/-- an occurrence that has to be instrumented: the replacement name expected and the operation's span -/
structure Occ where
  dst : String
  sp : Span
  what : String
deriving Repr, Inhabited, BEq

/-- literal, or a sum of such (never instrumented: nothing to propagate) -/
def litSum : Node → Bool
  | .lit .. => true
  | .bin "+" l r _ => litSum l && litSum r
  | _ => false

def isStaticPathSpec : Node → Bool
  | .member obj (.pname _ _) _ =>
    match obj with
    | .ident .. => true
    | .member .. => isStaticPathSpec obj
    | _ => false
  | _ => false

/-- receiver kinds the property lists for `recv.m(..)` -/
def receiverCovered (cfg : Config) (m : String) : Node → Bool
  | .ident .. => true
  | .call .. => true
  | .paren .. => true
  | .array .. => true
  | .member _ (.pname p _) _ => p != Generated.prototypeName
  | .member .. => true
  | .lit .. => cfg.allowsLiteralCallers m
  | _ => false

def argIsSpreadSpec : Node → Bool
  | .arg (some _) _ => true
  | _ => false

/-- the occurrence (if any) this very node is, ignoring context -/
def ownOcc (cfg : Config) (n : Node) : Option Occ :=
  match n with
  | .bin "+" l r sp =>
    if cfg.plusEnabled && !(litSum l && litSum r) then some ⟨cfg.plusName, sp, "+"⟩ else none
  | .assign "+=" left r sp =>
    -- the left side of `+=` is a reference, never a literal
    if cfg.plusEnabled && (match left with | .other .. => false | _ => true) then
      let _ := r
      some ⟨cfg.plusName, sp, "+="⟩
    else none
  | .tpl exprs _ sp =>
    if cfg.tplEnabled && !exprs.isEmpty && exprs.all (fun e => !e.isLit) then some ⟨cfg.tplName, sp, "Tpl"⟩ else none
  | .call (.member obj (.pname m _) _) cargs sp =>
    match cfg.get m with
    | some csi => if receiverCovered cfg m obj then some ⟨csi.dst, sp, "call"⟩ else none
    | none =>
      -- X.prototype.m.call|apply(thisArg, ..)
      if (m == Generated.callMethodName || m == Generated.applyMethodName) && isStaticPathSpec obj then
        match obj, cargs with
        | .member _ (.pname meth _) _, this :: rest =>
          match cfg.get meth with
          | some csi =>
            if argIsSpreadSpec this then some ⟨csi.dst, sp, "proto-spread-this"⟩
            else
              let thisE := match this with | .arg _ e => e | e => e
              let restE := rest.map fun a => match a with | .arg _ e => e | e => e
              let allLit := restE.all fun e => e.isLit || (match e with | .ident (.user u) _ => u == "undefined" || u == "null" | _ => false)
              if !receiverCovered cfg meth thisE then none
              else if thisE.isLit && allLit then none
              else if m == Generated.applyMethodName then
                match rest with
                -- an array literal, also when it is spread (`...[a, b]` is the argument list `a, b`)
                | .arg _ (.array elems _) :: _ =>
                  if thisE.isLit && (elems.all fun el => match el with | .arg _ e => e.isLit | _ => true) then none
                  else if thisE.isLit then some ⟨csi.dst, sp, "proto-apply/literal-this"⟩
                  else some ⟨csi.dst, sp, "proto-apply"⟩
                | .arg (some _) _ :: _ => some ⟨csi.dst, sp, "proto-apply"⟩
                | _ => some ⟨csi.dst, sp, "proto-apply/arguments-not-an-array-literal"⟩
              else some ⟨csi.dst, sp, "proto-call"⟩
          | none => none
        | _, _ => none
      else none
  | _ => none

/-- receiver kinds of `recv?.m(..)` that the lowering of the chain puts in a temporary -/
def optReceiverCovered : Node → Bool
  | .ident .. => true
  | .call .. => true
  | .paren .. => true
  | .array .. => true
  | .member _ (.pname p _) _ => p != Generated.prototypeName
  | .member .. => true
  | .optChain _ (.member _ (.pname p _) _) _ => p != Generated.prototypeName
  | .optChain .. => true
  | _ => false

/-- `recv?.m(..)` / `recv?.p.m(..)` / `recv.p?.m(..)` of a configured method `m` (the call itself is not the
    optional link: `recv.m?.()` is a documented exclusion).  The lowered call has no source position, so
    these occurrences are matched by replacement name only (`uncovered`). -/
def chainRootIsLit : Node → Bool
  | .lit .. => true
  | .member o _ _ => chainRootIsLit o
  | .optChain _ (.member o _ _) _ => chainRootIsLit o
  | .optChain _ (.optCall c _ _) _ => chainRootIsLit c
  | .call c _ _ => chainRootIsLit c
  | .paren e _ => chainRootIsLit e
  | _ => false

def optCallOcc (cfg : Config) (n : Node) : Option Occ :=
  match n with
  | .optChain false (.optCall (.optChain _ (.member obj (.pname m _) _) _) _ _) sp =>
    match cfg.get m with
    | some csi =>
      if optReceiverCovered obj then
        some ⟨csi.dst, sp, if chainRootIsLit obj then "opt-call/chain-rooted-at-literal" else "opt-call"⟩
      else none
    | none => none
  | _ => none

/-- context of each child, parallel to `kids` -/
def kidCtxs (cfg : Config) (c : CovCtx) (n : Node) : List CovCtx :=
  match n with
  | .block ss _ => ss.map fun _ => { c with inBlock := true }
  | .unary op _ _ => [if op == "delete" then { c with excluded := true } else c]
  | .arrow ps _ _ _ => (ps.map fun _ => { c with excluded := true }) ++ [c]
  | .tpl exprs qs _ =>
    let ex := cfg.tplEnabled && exprs.any (fun e => e.isLit)
    (exprs.map fun _ => if ex then { c with excluded := true } else c) ++ qs.map fun _ => c
  | _ => n.kids.map fun _ => c

/-- every occurrence of the tree that the property requires to be instrumented -/
def occurrences (cfg : Config) (c : CovCtx) (n : Node) : List Occ :=
  (if c.inBlock && !c.excluded then (ownOcc cfg n).toList ++ (optCallOcc cfg n).toList else []) ++
  ((n.kids.zip (kidCtxs cfg c n)).attach.map fun x => occurrences cfg x.1.2 x.1.1).flatten
termination_by sizeOf n
decreasing_by exact Node.sizeOf_lt_of_mem_kids (List.of_mem_zip x.2).1

/-- (name, span) of every hook site of the output -/
def hookSites (out : Node) : List (String × Span) :=
  (hooks out).filterMap fun h =>
    match h with
    | .call (.member _ (.pname name _) _) _ sp => some (name, sp)
    | _ => none

/-- occurrences of the input that have no hook of the expected name and span in the output -/
def uncovered (cfg : Config) (inp out : Node) : List Occ :=
  let sites := hookSites out
  let occs := occurrences cfg {} inp
  let isOpt := fun (o : Occ) => o.what.startsWith "opt-call"
  (occs.filter fun o => !isOpt o && !(sites.any fun s => s.1 == o.dst && s.2 == o.sp)) ++
  -- optional-chain calls: as many position-less hook calls of the name as occurrences
  ((occs.filter isOpt).map (·.dst)).eraseDups.filterMap fun dst =>
    let need := (occs.filter fun o => isOpt o && o.dst == dst)
    let have_ := (sites.filter fun s => s.1 == dst && s.2 == Span.dummy).length
    if have_ < need.length then
      -- report the literal-rooted one first when there is one (the known gap)
      ((need.filter fun o => o.what != "opt-call").head?).orElse fun _ => need.head?
    else none

end IastModel

import IastModel
import IastModel.MapChecks
import IastModel.Lemmas.NsCount
import IastModel.Lemmas.Targets
import IastModel.Lemmas.Temps
import IastModel.Js.FindEntry
import IastModel.Spec.EraseSpec
import IastModel.Lemmas.CovScope
/-
  Line-protocol driver.  One JSON record per stdin line (written by the Rust harness, which ran the
  real rewriter on the same request), one JSON verdict per stdout line:
    corr   : does the model agree with the implementation on the projections listed
    checks : the executable specifications (oracles) applied to the *real* output
  Imports no Mathlib, so it links as a `lean_exe`.
-/
open IastModel

def jstr (s : String) : J := .str s
def jnat (n : Nat) : J := .num (toString n)

def parseRawMethod (j : J) : Option RawCsiMethod :=
  match j.get? "src" with
  | some (.str src) =>
    let optStr (k : String) : Option (Option String) :=
      match j.get? k with
      | none => some none | some .null => some none | some (.str s) => some (some s) | _ => none
    let optBool (k : String) : Option (Option Bool) :=
      match j.get? k with
      | none => some none | some .null => some none | some (.bool b) => some (some b) | _ => none
    match optStr "dst", optBool "operator", optBool "allowedWithoutCallee" with
    | some d, some o, some a => some { src := src, dst := d, operator := o, allowedWithoutCallee := a }
    | _, _, _ => none
  | _ => none

/-- serde deserialisation of `RewriterConfig` (camelCase, unknown fields ignored); `none` = error,
    in which case the constructor falls back to `RewriterConfig::default()` -/
def parseRawConfig (j : J) : Option RawConfig :=
  match j with
  | .obj _ =>
    let optStr (k : String) : Option (Option String) :=
      match j.get? k with
      | none => some none | some .null => some none | some (.str s) => some (some s) | _ => none
    let optBool (k : String) : Option (Option Bool) :=
      match j.get? k with
      | none => some none | some .null => some none | some (.bool b) => some (some b) | _ => none
    let methods : Option (Option (List RawCsiMethod)) :=
      match j.get? "csiMethods" with
      | none => some none | some .null => some none
      | some (.arr xs) =>
        let ms := xs.map parseRawMethod
        if ms.all Option.isSome then some (some (ms.filterMap id)) else none
      | _ => none
    match optBool "chainSourceMap", optBool "comments", optStr "localVarPrefix", methods,
          optStr "telemetryVerbosity", optBool "literals" with
    | some c, some cm, some p, some m, some v, some l =>
      some { chainSourceMap := c, comments := cm, localVarPrefix := p, csiMethods := m,
             telemetryVerbosity := v, literals := l }
    | _, _, _, _, _, _ => none
  | _ => none

def configOfRecord (rec : J) : Config :=
  let raw := (parseRawConfig (rec.getD "cfg")).getD RawConfig.default
  toConfig raw (rec.getD "prefix").strD

def sortPairs (xs : List (String × Nat)) : List (String × Nat) :=
  (xs.toArray.qsort fun a b => a.1 < b.1).toList

def realDebug (m : J) : Option (List (String × Nat)) :=
  match m.get? "propagationDebug" with
  | some (.obj kvs) => some (sortPairs (kvs.map fun kv => (kv.1, kv.2.natD)))
  | _ => none

def sortLits (xs : List (String × List LitLocation)) : List (String × List (Nat × Nat × Option String)) :=
  let ys := xs.map fun e => (e.1, ((e.2.map fun l => (l.line, l.column, l.ident)).toArray.qsort fun a b =>
    a.1 < b.1 || (a.1 == b.1 && a.2.1 < b.2.1)).toList)
  (ys.toArray.qsort fun a b => a.1 < b.1).toList

def realLiterals (j : J) : Option (List (String × List (Nat × Nat × Option String))) :=
  match j with
  | .obj _ =>
    let xs := (j.getD "literals").arrD.map fun e =>
      ((e.getD "value").strD, (e.getD "locations").arrD.map fun l =>
        ({ ident := (l.getD "ident").str?, line := (l.getD "line").natD, column := (l.getD "column").natD } : LitLocation))
    some (sortLits xs)
  | _ => none

structure Verdict where
  corr : List (String × J) := []       -- disagreements model vs implementation
  checks : List (String × J) := []     -- oracle failures on the implementation's output
  stats : List (String × J) := []

def Verdict.addCorr (v : Verdict) (k : String) (d : J) : Verdict := { v with corr := v.corr ++ [(k, d)] }
def Verdict.addCheck (v : Verdict) (k : String) (d : J) : Verdict := { v with checks := v.checks ++ [(k, d)] }
def Verdict.addStat (v : Verdict) (k : String) (d : J) : Verdict := { v with stats := v.stats ++ [(k, d)] }

def processRewrite (rec : J) : Verdict := Id.run do
  let mut v : Verdict := {}
  let cfg := configOfRecord rec
  let pfx := tempPrefix cfg.localVarPrefix
  let outcome := (rec.getD "outcome").strD
  let inAst := rec.getD "in_ast"
  if inAst.isNull then
    return v.addStat "class" (jstr ("no-ast:" ++ outcome))
  match programFromJ pfx inAst with
  | .error e => return v.addCorr "convert-in" (jstr e)
  | .ok p =>
    let r := transformProgram cfg (defaultFuel p) p
    v := v.addStat "in_size" (jnat p.size)
    -- the hypotheses of the instrumentation theorems (`master`), evaluated on this input
    v := v.addStat "hyp" (jstr (if ns p != 0 then "mentions-namespace" else if !targetsOk p then "foreign-assignment-target"
      else if nt p != 0 then "reserved-temporary-name"
      else if cfg.methods.any (fun m => !m.operator && (m.src == Generated.addTag || m.src == Generated.addAssignTag || m.src == Generated.tplTag))
        then "method-named-like-an-operator-tag" else "met"))
    -- the hypotheses of the erasure theorems (C02): a well-formed source tree; without optional chaining for the
    -- whole-pipeline theorem
    v := v.addStat "hyp_erase" (jstr (if !srcOk p then "not-a-well-formed-source-tree" else if !noOpt cfg p then "met-except-a-lowered-optional-chain" else "met"))
    -- the scope of the C04 theorems (`inScope`, proved sound) on the occurrences the coverage oracle demands
    if NoNs p && targetsOk p then
      let occs := (occurrences cfg {} p).filter fun o => !o.what.startsWith "opt-call"
      v := v.addStat "c04_occurrences" (jnat occs.length)
      v := v.addStat "c04_in_theorem_scope" (jnat (occs.filter fun o => inScope cfg p o.dst o.sp).length)
    if r.fuelOut then v := v.addCorr "fuel" (jstr "model ran out of fuel")
    -- outcome / status
    let realStatus :=
      if outcome == "ok" then (rec.getD "status").strD
      else if outcome == "err" && ((rec.getD "err").strD.splitOn "Variable name duplicated").length > 1 then "Cancelled"
      else outcome
    v := v.addStat "status" (jstr realStatus)
    if realStatus != r.status.name then
      v := v.addCorr "status" (.obj [("model", jstr r.status.name), ("real", jstr realStatus)])
    -- transformed tree
    match programFromJ pfx (rec.getD "out_mem") with
    | .error e => v := v.addCorr "convert-out" (jstr e)
    | .ok outReal =>
      if r.status != .cancelled then
        match Node.diff pfx "" r.out outReal with
        | some (path, a, b) =>
          v := v.addCorr "tree" (.obj [("path", jstr path), ("model", jstr a), ("real", jstr b)])
        | none => pure ()
    -- oracles on the implementation's own output
    match programFromJ pfx (rec.getD "out_mem") with
    | .error _ => pure ()
    | .ok outReal =>
      let rm := rec.getD "metrics"
      let ro : RealOut := { cfg := cfg, pfx := pfx, inp := p, out := outReal, status := realStatus,
                            content := (rec.getD "content").strD,
                            metricsCount := (rm.getD "instrumentedPropagation").natD,
                            metricsDebug := realDebug rm,
                            file := (rec.getD "file").strD, metricsFile := (rm.getD "file").str? }
      if realStatus == "Modified" || realStatus == "NotModified" || realStatus == "Cancelled" then
        for f in allChecks ro do
          v := v.addCheck (f.prop ++ ":" ++ f.cls) (jstr f.detail)
      -- C14: the literal report, against the specification evaluated on the *input* tree and against
      -- the model evaluated on the model's transformed tree
      if outcome == "ok" then
        let src := stripBom (rec.getD "src").strD.toUTF8
        let realLits := realLiterals (rec.getD "literals")
        let specLits := if cfg.literals then some (sortLits (literalsResult src (collectLits p []))) else none
        let modelLits := if cfg.literals then some (sortLits (literalsResult src (collectLits r.out []))) else none
        if realLits != specLits then
          v := v.addCheck "C14:report-differs-from-input-literals" (.obj [("spec", jstr (reprStr specLits)), ("real", jstr (reprStr realLits))])
        if realLits != modelLits then
          v := v.addCorr "literals" (.obj [("model", jstr (reprStr modelLits)), ("real", jstr (reprStr realLits))])
      -- C08 (repository part): the printed text re-parses to the tree that was printed
      match rec.get? "out_text" with
      | some ot =>
        match ot.get? "ast" with
        | some a =>
          match programFromJ pfx a true with
          | .ok tText =>
            if !(Node.normText tText == Node.normText outReal) then
              let d := Node.diff pfx "" (Node.normText tText) (Node.normText outReal)
              v := v.addCheck "C08:printed-text-reparses-to-a-different-tree"
                (jstr (match d with | some (pa, a, b) => s!"at {pa}: text={a} memory={b}" | none => ""))
            if tText.kindName != p.kindName then
              v := v.addCheck "C08:program-kind-changed" (jstr (p.kindName ++ " -> " ++ tText.kindName))
          | .error e => v := v.addCorr "convert-text" (jstr e)
        | none => v := v.addCheck "C08:output-rejected-by-the-rewriter-parser" (jstr ((ot.getD "err").strD ++ (ot.getD "panic").strD))
      | none => pure ()
    -- metrics
    if outcome == "ok" then
      let m := getMetrics cfg r (rec.getD "file").strD
      let rm := rec.getD "metrics"
      if (rm.getD "instrumentedPropagation").natD != m.instrumentedPropagation
          || (rm.getD "status").strD != m.status || (rm.getD "file").strD != m.file
          || realDebug rm != m.propagationDebug.map sortPairs then
        v := v.addCorr "metrics" (.obj [("model", jstr (reprStr m)), ("real", rm)])
    return v

/-- C05: option defaulting and prologue generation, real `to_config` vs the model -/
def processConfig (rec : J) : Verdict := Id.run do
  let mut v : Verdict := {}
  let real := rec.getD "config"
  let raw := (parseRawConfig (rec.getD "cfg")).getD RawConfig.default
  let cfg := toConfig raw (real.getD "localVarPrefix").strD
  let explicitPrefix := raw.localVarPrefix.isSome
  v := v.addStat "explicit_prefix" (.bool explicitPrefix)
  let realMethods := (real.getD "methods").arrD.map fun m =>
    ((m.getD "src").strD, (m.getD "dst").strD, (m.getD "operator").bool?.getD false, (m.getD "allowedWithoutCallee").bool?.getD false)
  let modelMethods := cfg.methods.map fun m => (m.src, m.dst, m.operator, m.allowedWithoutCallee)
  if realMethods != modelMethods then
    v := v.addCorr "config" (.obj [("field", jstr "methods"), ("model", jstr (reprStr modelMethods)), ("real", real.getD "methods")])
  if (real.getD "chainSourceMap").bool? != some cfg.chainSourceMap || (real.getD "comments").bool? != some cfg.printComments
      || (real.getD "literals").bool? != some cfg.literals || (real.getD "verbosity").strD != cfg.verbosity.name then
    v := v.addCorr "config" (.obj [("field", jstr "options"), ("model", jstr (reprStr cfg)), ("real", real)])
  if (real.getD "plusOperator").str? != cfg.plusOperator.map (·.dst) || (real.getD "tplOperator").str? != cfg.tplOperator.map (·.dst) then
    v := v.addCorr "config" (.obj [("field", jstr "operators"), ("real", real)])
  -- documented default of the prefix: six lowercase letters
  if !explicitPrefix then
    let p := (real.getD "localVarPrefix").strD
    if p.length != Generated.rndPrefixLength || !(p.toList.all fun c => Generated.rndAlphabet.toList.contains c) then
      v := v.addCheck "C05:random-prefix-not-six-lowercase-letters" (jstr p)
  -- the prologue: real parse of the spliced template vs the model's tree (when every dst is an identifier name)
  let pfx := tempPrefix cfg.localVarPrefix
  let realPro := (real.getD "prefixStmts").arrD.map (fromJ pfx "Script" "body")
  let validName (s : String) : Bool :=
    !s.isEmpty && s.toList.all (fun c => c.isAlphanum || c == '_' || c == '$') && !(s.toList.head!.isDigit)
  if cfg.dsts.all validName then
    if !(Node.beqL realPro (prologue cfg.dsts)) then
      let d := Node.diff pfx "" (.arr (prologue cfg.dsts)) (.arr realPro)
      v := v.addCorr "config" (.obj [("field", jstr "prologue"), ("diff", jstr (reprStr d))])
    -- every configured name gets a pass-through entry, nothing else
    let keys := (Node.collect (fun k => match k with | .other "KeyValueProperty" .. => true | _ => false) (.arr realPro)).filterMap fun k =>
      match k with
      | .other _ _ _ [.pname nm _, .ident (.user "noop") _] => some nm
      | _ => none
    if keys != cfg.dsts then
      v := v.addCheck "C05:prologue-entries-differ-from-configured-names" (jstr (reprStr keys))
  return v

def trailerMarker : String := "\n//# sourceMappingURL=data:application/json;base64,"

/-- split `content` into the printed code and the decoded inline map of the trailer -/
def splitTrailer (content : String) : Option (String × String) :=
  match content.splitOn trailerMarker with
  | [] => none
  | [_] => none
  | parts =>
    let b64 := parts.getLast!
    let body := trailerMarker.intercalate parts.dropLast
    match b64decode b64 with
    | some bytes => (String.fromUTF8? bytes).map fun m => (body, m)
    | none => none

def rtokJson (t : RTok) : J :=
  .arr [jnat t.genLine, jnat t.genCol,
        match t.src with | some (s, l, c) => .arr [jstr s, jnat l, jnat c] | none => .null,
        match t.name with | some n => jstr n | none => .null]

/-- C09: the embedded map of a modified file -/
def processMaps (rec : J) : Verdict := Id.run do
  let mut v : Verdict := {}
  let cfg := configOfRecord rec
  let pfx := tempPrefix cfg.localVarPrefix
  if (rec.getD "outcome").strD != "ok" || (rec.getD "status").strD != "Modified" then
    return v.addStat "class" (jstr "not-modified")
  let content := (rec.getD "content").strD
  let mapStr := (rec.getD "map").strD
  match splitTrailer content with
  | none => return v.addCheck "C09:no-decodable-inline-map-trailer" (jstr "")
  | some (body, finalMap) =>
    match decodeMapJson mapStr with
    | .error e => return v.addCheck "C09:emitted-map-does-not-decode" (jstr e)
    | .ok dm =>
      -- tie: the verified decoder and the sourcemap crate read the same tokens
      if dm.tokens != crateTokens (rec.getD "map_tokens") then
        v := v.addCorr "map" (jstr "verified decoder and sourcemap crate disagree on the token list")
      v := v.addStat "tokens" (jnat dm.tokens.length)
      if !cfg.chainSourceMap || (rec.getD "orig_map").isNull then
        if finalMap != mapStr then
          v := v.addCheck "C09:trailer-is-not-the-rewrite-map" (jstr "")
      match programFromJ pfx (rec.getD "in_ast"), programFromJ pfx (rec.getD "out_mem"),
            programFromJ pfx ((rec.getD "out_text").getD "ast") true with
      | .ok inp, .ok outMem, .ok outText =>
        -- the printed code the map was produced for is `code`; `content` differs from it only by comment removal
        let code := (rec.getD "code").strD
        let mi : MapInput := { file := (rec.getD "file").strD, src := stripBom (rec.getD "src").strD.toUTF8,
                               content := code.toUTF8, inp := inp, outMem := outMem, outText := outText, map := dm }
        let _ := body
        for (cls, d) in checkC09 mi do
          v := v.addCheck ("C09:" ++ cls) (jstr d)
      | _, _, _ => v := v.addCorr "convert-in" (jstr "tree conversion failed in maps mode")
      return v

/-- C10: chaining and trailer / comment handling -/
def processChain (rec : J) : Verdict := Id.run do
  let mut v : Verdict := {}
  let cfg := configOfRecord rec
  let pfx := tempPrefix cfg.localVarPrefix
  if (rec.getD "outcome").strD != "ok" || (rec.getD "status").strD != "Modified" then
    return v.addStat "class" (jstr "not-modified")
  let content := (rec.getD "content").strD
  let mapStr := (rec.getD "map").strD
  let code := (rec.getD "code").strD
  let origJ := rec.getD "orig_map"
  v := v.addStat "has_orig" (.bool !origJ.isNull)
  -- an original map can only come from a reference in this file's own text
  if !origJ.isNull && ((rec.getD "src").strD.splitOn "sourceMappingURL=").length ≤ 1 then
    v := v.addCheck "C10:original-map-used-for-a-file-that-references-none" (jstr ((rec.getD "orig_comment").strD.take 80).toString)
  -- a usable original map (the request says which kind of reference the file carries) must be found
  let tags := (rec.getD "tags").arrD.map (·.strD)
  if origJ.isNull && cfg.chainSourceMap && (tags.any fun t => t == "ref1" || t == "ref2" || t == "ref3" || t == "ref4" || t == "ref5") then
    v := v.addCheck "C10:usable-original-map-not-loaded" (jstr (((rec.getD "src").strD.splitOn "sourceMappingURL=").getLast?.getD "" |>.take 60).toString)
  match splitTrailer content with
  | none => return v.addCheck "C10:no-decodable-inline-map-trailer" (jstr "")
  | some (body, finalMap) =>
    -- exactly one trailer, at the very end
    let lines := content.splitOn "\n"
    let refs := lines.filter fun l => (l.trimAsciiStart.toString.startsWith "//# sourceMappingURL=") ||
      (l.splitOn "/*# sourceMappingURL=").length > 1 || (l.trimAsciiStart.toString.startsWith "//@ sourceMappingURL=")
    if refs.length != 1 then
      v := v.addCheck "C10:not-exactly-one-sourceMappingURL-comment" (jnat refs.length)
    match decodeMapJson mapStr, decodeMapJson finalMap with
    | .ok rw, .ok fin =>
      v := v.addStat "tokens" (jnat fin.tokens.length)
      if cfg.chainSourceMap && !origJ.isNull then
        let orig := crateTokens origJ
        let expected := rChain rw.tokens orig
        if fin.tokens != expected then
          let firstDiff := ((fin.tokens.zip expected).find? fun p => p.1 != p.2)
          v := v.addCorr "chain" (.obj [("real", match firstDiff with | some p => rtokJson p.1 | none => jnat fin.tokens.length),
                                        ("model", match firstDiff with | some p => rtokJson p.2 | none => jnat expected.length)])
        -- composition, token by token and independently of the model of chaining: two-step lookup
        -- (when the rewrite map has several tokens at one generated position, the chained token answers for one of them)
        for t in fin.tokens do
          let step2 := fun (r : RTok) => match r.src with
            | some (_, l, c) => rtokLookup orig l c
            | none => none
          let here := rw.tokens.filter fun r => r.genLine == t.genLine && r.genCol == t.genCol
          let cands := if here.isEmpty then (rtokLookup rw.tokens t.genLine t.genCol).toList else here
          let twos := cands.filterMap step2
          match twos.getLast? with
          | some o =>
            if !(twos.any fun o => t.src == o.src && t.name == o.name) then
              v := v.addCheck "C10:chained-token-differs-from-two-step-lookup"
                (.obj [("chained", rtokJson t), ("two_step", rtokJson o)])
              break
          | none =>
            v := v.addCheck "C10:chained-token-without-two-step-counterpart" (rtokJson t)
            break
        -- and the other way round (`emitted_chain_lookup`): wherever the rewrite map has a token that the original
        -- map resolves, the emitted map answers with that original position (no mapping may be lost on the way)
        for r in rw.tokens do
          match r.src with
          | some (_, l, c) =>
            match rtokLookup orig l c with
            | some o =>
              if o.src.isSome then
                let hereF := fin.tokens.filter fun t => t.genLine == r.genLine && t.genCol == r.genCol
                match rtokLookup fin.tokens r.genLine r.genCol with
                | some got =>
                  if got.src != o.src && !(hereF.any fun t => t.src == o.src) then
                    v := v.addCheck "C10:position-of-a-rewrite-token-resolves-differently-in-the-emitted-map"
                      (.obj [("at", .arr [jnat r.genLine, jnat r.genCol]), ("emitted", rtokJson got), ("two_step", rtokJson o)])
                    break
                | none =>
                  v := v.addCheck "C10:position-of-a-rewrite-token-has-no-mapping-in-the-emitted-map" (.arr [jnat r.genLine, jnat r.genCol])
                  break
            | none => pure ()
          | none => pure ()
      else
        if finalMap != mapStr then
          v := v.addCheck "C10:plain-rewrite-map-not-emitted-when-no-chaining-applies" (jstr "")
    | .error e, _ => v := v.addCheck "C10:rewrite-map-does-not-decode" (jstr e)
    | _, .error e => v := v.addCheck "C10:final-map-does-not-decode" (jstr e)
    -- the program text is not altered by the comment handling: same tree before and after
    match programFromJ pfx ((rec.getD "out_text").getD "ast") true, programFromJ pfx ((rec.getD "code_text").getD "ast") true with
    | .ok a, .ok b =>
      if !(Node.normText a == Node.normText b) then
        let d := Node.diff pfx "" (Node.normText a) (Node.normText b)
        v := v.addCheck "C10:comment-removal-altered-the-program"
          (jstr (match d with | some (p, x, y) => s!"at {p}: content={x} printed={y}" | none => ""))
    | _, _ =>
      if !((rec.getD "out_text").getD "ast").isNull || !((rec.getD "code_text").getD "ast").isNull then
        v := v.addCheck "C10:content-or-printed-code-does-not-parse" (jstr "")
    -- the superseded comment is gone when comments are printed
    if cfg.printComments then
      match (rec.getD "orig_comment").str? with
      | some c =>
        if (body.splitOn ("//" ++ c)).length > 1 && !((rec.getD "src").strD.splitOn ("\"//" ++ c)).length > 1 then
          v := v.addCheck "C10:superseded-comment-still-present" (jstr c)
      | none => pure ()
    return v

/-- the model of `SourceMap.findEntry` on the mappings as `_parseMappingPayload` leaves them (stably
    sorted by generated position) -/
def feLookup (toks : List RTok) (line col : Nat) : Option RTok :=
  let sorted := toks.mergeSort fun a b => !FindEntry.posLt (b.genLine, b.genCol) (a.genLine, a.genCol)
  (FindEntry.findEntryIdx (sorted.map fun t => (t.genLine, t.genCol)) (line, col)).bind (sorted[·]?)

/-- C11: model of `findEntry` + `getPathAndLine` (1-based in, 1-based out) on a raw map -/
def processJs (rec : J) : J :=
  -- js/source-map/node_source_map.js reads `sources` as they are (the maps it is given are the
  -- rewriter's, whose sources the `sourcemap` crate has already resolved)
  match decodeMapJson (rec.getD "map").strD false with
  | .error e => .obj [("id", rec.getD "id"), ("error", jstr e)]
  | .ok dm =>
    let sorted := dm.tokens.mergeSort fun a b => !FindEntry.posLt (b.genLine, b.genCol) (a.genLine, a.genCol)
    let answers := (rec.getD "positions").arrD.map fun p =>
      match p with
      | .arr [l, c] =>
        if c.natD == 0 then J.null   -- column 0 is below the first column: class of its own
        else
          match feLookup dm.tokens (l.natD - 1) (c.natD - 1) with
          | some { src := some (s, ol, oc), .. } => .arr [jstr s, jnat ol, jnat oc]
          | _ => J.null
      | _ => J.null
    -- the binary search against the specification it is proved equal to (`findEntry_eq_lookup`)
    let differs := (rec.getD "positions").arrD.any fun p =>
      match p with
      | .arr [l, c] => c.natD != 0 && !(feLookup dm.tokens (l.natD - 1) (c.natD - 1) == rtokLookup sorted (l.natD - 1) (c.natD - 1))
      | _ => false
    .obj [("id", rec.getD "id"), ("model", .arr answers), ("spec_differs", .bool differs)]

def verdictJson (id : J) (v : Verdict) : J :=
  .obj [("id", id),
        ("corr", if v.corr.isEmpty then jstr "ok" else .obj v.corr),
        ("checks", if v.checks.isEmpty then jstr "ok" else .obj v.checks),
        ("stats", .obj v.stats)]

partial def loop (h : IO.FS.Stream) (out : IO.FS.Stream) : IO Unit := do
  let line ← h.getLine
  if line.isEmpty then return ()
  if line.trimAscii.toString.isEmpty then
    loop h out
  else
    match J.parse line with
    | .error e => out.putStrLn (J.render (.obj [("error", jstr e)]))
    | .ok rec =>
      let mode := (rec.getD "mode").strD
      if mode == "parseonly" then
        out.putStrLn "{}"
      else if mode == "convertonly" then
        let cfg := configOfRecord rec
        match programFromJ (tempPrefix cfg.localVarPrefix) (rec.getD "in_ast"), programFromJ (tempPrefix cfg.localVarPrefix) (rec.getD "out_mem") with
        | .ok a, .ok b => out.putStrLn (J.render (.obj [("n", jnat (a.size + b.size))]))
        | _, _ => out.putStrLn "{}"
      else if mode == "js" then
        out.putStrLn (J.render (processJs rec))
      else if mode == "maps" then
        out.putStrLn (J.render (verdictJson (rec.getD "id") (processMaps rec)))
      else if mode == "chain" then
        out.putStrLn (J.render (verdictJson (rec.getD "id") (processChain rec)))
      else if mode == "config" then
        out.putStrLn (J.render (verdictJson (rec.getD "id") (processConfig rec)))
      else
        let v := processRewrite rec
        out.putStrLn (J.render (verdictJson (rec.getD "id") v))
    out.flush
    loop h out

def main : IO Unit := do
  loop (← IO.getStdin) (← IO.getStdout)

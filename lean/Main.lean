import IastModel
/-
  Line-protocol driver.  One JSON record per stdin line (written by the Rust harness, which ran the
  real rewriter on the same request), one JSON verdict per stdout line:
    corr   : does the model agree with the implementation on the projections listed
    checks : the executable specifications (oracles) applied to the *real* output
  Imports no Mathlib, so it links as a `lean_exe`.
-/
open IastModel

def jstr (s : String) : J := .str s
def jnat (n : Nat) : J := .num (toString n)

def parseRawMethod (j : J) : Option RawCsiMethod :=
  match j.get? "src" with
  | some (.str src) =>
    let optStr (k : String) : Option (Option String) :=
      match j.get? k with
      | none => some none | some .null => some none | some (.str s) => some (some s) | _ => none
    let optBool (k : String) : Option (Option Bool) :=
      match j.get? k with
      | none => some none | some .null => some none | some (.bool b) => some (some b) | _ => none
    match optStr "dst", optBool "operator", optBool "allowedWithoutCallee" with
    | some d, some o, some a => some { src := src, dst := d, operator := o, allowedWithoutCallee := a }
    | _, _, _ => none
  | _ => none

/-- serde deserialisation of `RewriterConfig` (camelCase, unknown fields ignored); `none` = error,
    in which case the constructor falls back to `RewriterConfig::default()` -/
def parseRawConfig (j : J) : Option RawConfig :=
  match j with
  | .obj _ =>
    let optStr (k : String) : Option (Option String) :=
      match j.get? k with
      | none => some none | some .null => some none | some (.str s) => some (some s) | _ => none
    let optBool (k : String) : Option (Option Bool) :=
      match j.get? k with
      | none => some none | some .null => some none | some (.bool b) => some (some b) | _ => none
    let methods : Option (Option (List RawCsiMethod)) :=
      match j.get? "csiMethods" with
      | none => some none | some .null => some none
      | some (.arr xs) =>
        let ms := xs.map parseRawMethod
        if ms.all Option.isSome then some (some (ms.filterMap id)) else none
      | _ => none
    match optBool "chainSourceMap", optBool "comments", optStr "localVarPrefix", methods,
          optStr "telemetryVerbosity", optBool "literals" with
    | some c, some cm, some p, some m, some v, some l =>
      some { chainSourceMap := c, comments := cm, localVarPrefix := p, csiMethods := m,
             telemetryVerbosity := v, literals := l }
    | _, _, _, _, _, _ => none
  | _ => none

def configOfRecord (rec : J) : Config :=
  let raw := (parseRawConfig (rec.getD "cfg")).getD RawConfig.default
  toConfig raw (rec.getD "prefix").strD

def sortPairs (xs : List (String × Nat)) : List (String × Nat) :=
  (xs.toArray.qsort fun a b => a.1 < b.1).toList

def realDebug (m : J) : Option (List (String × Nat)) :=
  match m.get? "propagationDebug" with
  | some (.obj kvs) => some (sortPairs (kvs.map fun kv => (kv.1, kv.2.natD)))
  | _ => none

def sortLits (xs : List (String × List LitLocation)) : List (String × List (Nat × Nat × Option String)) :=
  let ys := xs.map fun e => (e.1, ((e.2.map fun l => (l.line, l.column, l.ident)).toArray.qsort fun a b =>
    a.1 < b.1 || (a.1 == b.1 && a.2.1 < b.2.1)).toList)
  (ys.toArray.qsort fun a b => a.1 < b.1).toList

def realLiterals (j : J) : Option (List (String × List (Nat × Nat × Option String))) :=
  match j with
  | .obj _ =>
    let xs := (j.getD "literals").arrD.map fun e =>
      ((e.getD "value").strD, (e.getD "locations").arrD.map fun l =>
        ({ ident := (l.getD "ident").str?, line := (l.getD "line").natD, column := (l.getD "column").natD } : LitLocation))
    some (sortLits xs)
  | _ => none

structure Verdict where
  corr : List (String × J) := []       -- disagreements model vs implementation
  checks : List (String × J) := []     -- oracle failures on the implementation's output
  stats : List (String × J) := []

def Verdict.addCorr (v : Verdict) (k : String) (d : J) : Verdict := { v with corr := v.corr ++ [(k, d)] }
def Verdict.addCheck (v : Verdict) (k : String) (d : J) : Verdict := { v with checks := v.checks ++ [(k, d)] }
def Verdict.addStat (v : Verdict) (k : String) (d : J) : Verdict := { v with stats := v.stats ++ [(k, d)] }

def processRewrite (rec : J) : Verdict := Id.run do
  let mut v : Verdict := {}
  let cfg := configOfRecord rec
  let pfx := tempPrefix cfg.localVarPrefix
  let outcome := (rec.getD "outcome").strD
  let inAst := rec.getD "in_ast"
  if inAst.isNull then
    return v.addStat "class" (jstr ("no-ast:" ++ outcome))
  match programFromJ pfx inAst with
  | .error e => return v.addCorr "convert-in" (jstr e)
  | .ok p =>
    let r := transformProgram cfg (defaultFuel p) p
    v := v.addStat "in_size" (jnat p.size)
    if r.fuelOut then v := v.addCorr "fuel" (jstr "model ran out of fuel")
    -- outcome / status
    let realStatus :=
      if outcome == "ok" then (rec.getD "status").strD
      else if outcome == "err" && ((rec.getD "err").strD.splitOn "Variable name duplicated").length > 1 then "Cancelled"
      else outcome
    v := v.addStat "status" (jstr realStatus)
    if realStatus != r.status.name then
      v := v.addCorr "status" (.obj [("model", jstr r.status.name), ("real", jstr realStatus)])
    -- transformed tree
    match programFromJ pfx (rec.getD "out_mem") with
    | .error e => v := v.addCorr "convert-out" (jstr e)
    | .ok outReal =>
      if r.status != .cancelled then
        match Node.diff pfx "" r.out outReal with
        | some (path, a, b) =>
          v := v.addCorr "tree" (.obj [("path", jstr path), ("model", jstr a), ("real", jstr b)])
        | none => pure ()
    -- oracles on the implementation's own output
    match programFromJ pfx (rec.getD "out_mem") with
    | .error _ => pure ()
    | .ok outReal =>
      let rm := rec.getD "metrics"
      let ro : RealOut := { cfg := cfg, pfx := pfx, inp := p, out := outReal, status := realStatus,
                            content := (rec.getD "content").strD,
                            metricsCount := (rm.getD "instrumentedPropagation").natD,
                            metricsDebug := realDebug rm }
      if realStatus == "Modified" || realStatus == "NotModified" || realStatus == "Cancelled" then
        for f in allChecks ro do
          v := v.addCheck (f.prop ++ ":" ++ f.cls) (jstr f.detail)
      -- C14: the literal report, against the specification evaluated on the *input* tree and against
      -- the model evaluated on the model's transformed tree
      if outcome == "ok" then
        let src := stripBom (rec.getD "src").strD.toUTF8
        let realLits := realLiterals (rec.getD "literals")
        let specLits := if cfg.literals then some (sortLits (literalsResult src (collectLits p []))) else none
        let modelLits := if cfg.literals then some (sortLits (literalsResult src (collectLits r.out []))) else none
        if realLits != specLits then
          v := v.addCheck "C14:report-differs-from-input-literals" (.obj [("spec", jstr (reprStr specLits)), ("real", jstr (reprStr realLits))])
        if realLits != modelLits then
          v := v.addCorr "literals" (.obj [("model", jstr (reprStr modelLits)), ("real", jstr (reprStr realLits))])
      -- C08 (repository part): the printed text re-parses to the tree that was printed
      match rec.get? "out_text" with
      | some ot =>
        match ot.get? "ast" with
        | some a =>
          match programFromJ pfx a true with
          | .ok tText =>
            if !(Node.normText tText == Node.normText outReal) then
              let d := Node.diff pfx "" (Node.normText tText) (Node.normText outReal)
              v := v.addCheck "C08:printed-text-reparses-to-a-different-tree"
                (jstr (match d with | some (pa, a, b) => s!"at {pa}: text={a} memory={b}" | none => ""))
            if tText.kindName != p.kindName then
              v := v.addCheck "C08:program-kind-changed" (jstr (p.kindName ++ " -> " ++ tText.kindName))
          | .error e => v := v.addCorr "convert-text" (jstr e)
        | none => v := v.addCheck "C08:output-rejected-by-the-rewriter-parser" (jstr ((ot.getD "err").strD ++ (ot.getD "panic").strD))
      | none => pure ()
    -- metrics
    if outcome == "ok" then
      let m := getMetrics cfg r (rec.getD "file").strD
      let rm := rec.getD "metrics"
      if (rm.getD "instrumentedPropagation").natD != m.instrumentedPropagation
          || (rm.getD "status").strD != m.status || (rm.getD "file").strD != m.file
          || realDebug rm != m.propagationDebug.map sortPairs then
        v := v.addCorr "metrics" (.obj [("model", jstr (reprStr m)), ("real", rm)])
    return v

def verdictJson (id : J) (v : Verdict) : J :=
  .obj [("id", id),
        ("corr", if v.corr.isEmpty then jstr "ok" else .obj v.corr),
        ("checks", if v.checks.isEmpty then jstr "ok" else .obj v.checks),
        ("stats", .obj v.stats)]

partial def loop (h : IO.FS.Stream) (out : IO.FS.Stream) : IO Unit := do
  let line ← h.getLine
  if line.isEmpty then return ()
  if line.trimAscii.toString.isEmpty then
    loop h out
  else
    match J.parse line with
    | .error e => out.putStrLn (J.render (.obj [("error", jstr e)]))
    | .ok rec =>
      let mode := (rec.getD "mode").strD
      if mode == "parseonly" then
        out.putStrLn "{}"
      else if mode == "convertonly" then
        let cfg := configOfRecord rec
        match programFromJ (tempPrefix cfg.localVarPrefix) (rec.getD "in_ast"), programFromJ (tempPrefix cfg.localVarPrefix) (rec.getD "out_mem") with
        | .ok a, .ok b => out.putStrLn (J.render (.obj [("n", jnat (a.size + b.size))]))
        | _, _ => out.putStrLn "{}"
      else
        let v := processRewrite rec
        out.putStrLn (J.render (verdictJson (rec.getD "id") v))
    out.flush
    loop h out

def main : IO Unit := do
  loop (← IO.getStdin) (← IO.getStdout)

'use strict'
// makes the repository's JavaScript loadable without node_modules / the wasm build:
//   lru-cache              -> js/shims/lru-cache.js
//   ./wasm/wasm_iast_rewriter -> a Rewriter that answers from a table of results computed by the real
//                              Rust code (the harness), installed by the job script as global.__VERIF_NATIVE
const Module = require('module')
const path = require('path')
const orig = Module._resolveFilename
Module._resolveFilename = function (request, parent, ...rest) {
  if (request === 'lru-cache') return path.join(__dirname, 'shims', 'lru-cache.js')
  if (/wasm_iast_rewriter$/.test(request)) return path.join(__dirname, 'shims', 'native.js')
  return orig.call(this, request, parent, ...rest)
}

'use strict'
// compile (never run) input and output with V8, as script or module according to the input kind
const fs = require('fs')
const vm = require('vm')
const jobs = JSON.parse(fs.readFileSync(process.argv[2], 'utf8'))
function compiles (code, kind) {
  try {
    if (kind === 'module') { new vm.SourceTextModule(code) } else { new vm.Script(code) } // eslint-disable-line no-new
    return [true, null]
  } catch (e) { return [false, String(e && e.message || e).slice(0, 300)] }
}
const out = []
for (const j of jobs) {
  const [inputOk] = compiles(j.input, j.kind)
  const [outputOk, error] = compiles(j.output, j.kind)
  out.push({ id: j.id, inputOk, outputOk, error })
}
process.stdout.write(JSON.stringify(out))

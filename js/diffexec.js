'use strict'
// Differential execution of an input program and its rewritten output in fresh V8 contexts whose free
// variables are observable objects: every interaction (get/set/has/delete/call/construct/iterate/coerce)
// is logged.  Support for C01/C03/C06/C07 (search for failing inputs, validation that V8 is an instance
// of the model's Host); never a proof.
//   usage: node diffexec.js <jobs.json>   jobs: [{id, input, output, hooks: 'identity'|'record'}]
const fs = require('fs')
const vm = require('vm')

const NAMES = ['a', 'b', 'c', 's', 'o', 'arr', 'x', 'y', 'z', 'k', 'fn', 'obj', 'f', 'g', 'tag', 'Foo', 'Base', 'X', 'q1', 'q3', 'ns',
  'substring', 'trim', 'trimStart', 'trimEnd', 'concat', 'slice', 'replace', 'replaceAll', 'padStart', 'padEnd', 'repeat', 'toLowerCase', 'split', 'custom',
  'i', 'v', 'w', 'e', 'p0', 'p1', 'unknownGlobal']

function makeWorld (seed, sandboxRef) {
  const log = []
  const coerce = []
  let counter = 0
  // every pseudo-random choice is a function of (seed, object name, per-object use count): the values an
  // object yields do not depend on the global order of events
  const uses = new Map()
  const hash = (str) => { let h = (seed * 2654435761) >>> 0; for (let i = 0; i < str.length; i++) h = (Math.imul(h ^ str.charCodeAt(i), 16777619)) >>> 0; return h >>> 3 }
  const next = (name) => { const n = (uses.get(name) || 0) + 1; uses.set(name, n); return hash(name + '#' + n) }
  const names = new WeakMap()
  const REBINDABLE = ['a', 'b', 'x', 'y', 's']
  // a call or an implicit coercion may run user code that rebinds a free variable: this is what makes
  // "which value of `a` does the expression see" observable
  function maybeRebind (why) {
    const h = hash('rebind:' + why)
    if (h % 3 !== 0 || !sandboxRef.box) return
    const v = REBINDABLE[(h >>> 2) % REBINDABLE.length]
    const n = (uses.get('rb:' + v) || 0) + 1; uses.set('rb:' + v, n)
    sandboxRef.box[v] = obs(v + "'" + n, 0)
    log.push('rebind:' + v + ' by ' + why)
  }
  function obs (name, depth) {
    const target = function () {}
    const children = new Map()
    const child = (k) => {
      if (!children.has(k)) children.set(k, depth > 6 ? 'leaf:' + name + '.' + k : obs(name + '.' + k, depth + 1))
      return children.get(k)
    }
    const p = new Proxy(target, {
      get (_, key) {
        if (key === Symbol.toPrimitive) {
          return (hint) => { coerce.push('prim:' + name + ':' + hint); if (hint === 'number') maybeRebind('prim:' + name); const h = hash('prim:' + name); return (h % 3 === 0) ? (h % 100) : '<' + name + '>' }
        }
        if (key === Symbol.iterator) {
          log.push('iter:' + name)
          return function * () { yield child('#0'); yield child('#1') }
        }
        if (typeof key === 'symbol') { return undefined }
        if (key === 'then') return undefined
        if (key === 'prototype') { log.push('get:' + name + '.prototype'); return child('prototype') }
        log.push('get:' + name + '.' + String(key))
        if (key === 'length') return 2
        if (key === 'call' || key === 'apply' || key === 'bind') return Function.prototype[key]
        return child(String(key))
      },
      set (_, key, val) { log.push('set:' + name + '.' + String(key) + '=' + show(val)); children.set(String(key), val); return true },
      has (_, key) { log.push('has:' + name + '.' + String(key)); return (hash('has:' + name + String(key)) & 1) === 0 },
      deleteProperty (_, key) { log.push('del:' + name + '.' + String(key)); return true },
      apply (_, thisArg, args) {
        const id = ++counter
        log.push('call:' + name + ' this=' + show(thisArg) + ' args=[' + args.map(show).join(',') + '] #' + id)
        maybeRebind('call:' + name + '#' + (uses.get('call:' + name) || 0))
        const k = next('call:' + name) % 7
        if (k === 0) return undefined
        if (k === 1) return null
        if (k === 2) return 'str' + id
        return obs(name + '()' + id, depth + 1)
      },
      construct (_, args) { log.push('new:' + name + ' args=[' + args.map(show).join(',') + ']'); return obs('new ' + name, depth + 1) },
      ownKeys () { log.push('keys:' + name); return ['k1', 'k2'] },
      getOwnPropertyDescriptor (_, key) { return { configurable: true, enumerable: true, value: child(String(key)), writable: true } },
      getPrototypeOf () { return Function.prototype }
    })
    names.set(p, name)
    return p
  }
  function show (v) {
    if (v === null) return 'null'
    if (v === undefined) return 'undefined'
    if (typeof v === 'object' || typeof v === 'function') {
      if (names.has(v)) return '<' + names.get(v) + '>'
      if (Array.isArray(v)) return '[' + v.map(show).join(',') + ']'
      if (v instanceof RegExp) return String(v)
      if (typeof v === 'function') return 'fn'
      try { return '{' + Object.keys(v).map(k => k + ':' + show(v[k])).join(',') + '}' } catch (e) { return 'obj' }
    }
    if (typeof v === 'bigint') return String(v) + 'n'
    if (typeof v === 'symbol') return 'symbol'
    return JSON.stringify(v)
  }
  return { log, coerce, obs, show }
}

function runOne (code, hooksMode, seed, kind) {
  const ref = { box: null }
  const w = makeWorld(seed, ref)
  const sandbox = {}
  ref.box = sandbox
  for (const n of NAMES) sandbox[n] = w.obs(n, 0)
  const hookLog = []
  sandbox._ddiast = new Proxy({}, {
    get (_, name) {
      if (typeof name === 'symbol') return undefined
      return function (res, ...ops) { if (hooksMode === 'record') hookLog.push(String(name) + '(' + w.show(res) + ';' + ops.map(w.show).join(',') + ')'); return res }
    }
  })
  sandbox.String = String; sandbox.RegExp = RegExp; sandbox.undefined = undefined; sandbox.eval = undefined
  const ctx = vm.createContext(sandbox)
  // the source text of a function is not behaviour (C01: up to source positions)
  vm.runInContext("Function.prototype.toString = function () { return 'function () { [code] }' }", ctx)
  let outcome
  try {
    const dyn = (spec) => { w.log.push('import:' + w.show(spec)); return Promise.reject(new Error('no module loader in the sandbox')) }
    const script = new vm.Script(code, { filename: 'prog.js', importModuleDynamically: dyn })
    const r = script.runInContext(ctx, { timeout: 500 })
    let value = r
    if (typeof sandbox.main === 'function' || typeof vm.runInContext('typeof main', ctx) === 'string') {
      const has = vm.runInContext('typeof main === "function"', ctx)
      if (has) value = vm.runInContext('main.call(o, a, b, c)', ctx, { timeout: 500, importModuleDynamically: dyn })
    }
    outcome = 'value:' + w.show(value)
  } catch (e) {
    let cls
    try { cls = (e && typeof e === 'object' && e.constructor && typeof e.constructor.name === 'string' && !w.show(e).startsWith('<')) ? e.constructor.name : 'thrown:' + w.show(e) } catch (e2) { cls = 'thrown' }
    if (e && e.code === 'ERR_SCRIPT_EXECUTION_TIMEOUT') cls = 'timeout'
    outcome = 'throw:' + cls
  }
  // law A-call of the model's Host: reading `.call` / `.apply` of a function value is not an effect
  const log = w.log.filter(x => !/^get:.*\.(call|apply)$/.test(x) && !/^rebind:.* by prim:/.test(x))
  return { outcome, log, coerce: w.coerce.slice().sort(), hooks: hookLog }
}

// `import(x)` inside a sandboxed script yields a rejected promise: an observable event, never a crash
process.on('unhandledRejection', () => {})
const jobs = JSON.parse(fs.readFileSync(process.argv[2], 'utf8'))
const out = []
for (const j of jobs) {
  const res = { id: j.id }
  try {
    for (const seed of (j.seeds || [1, 2])) {
      const a = runOne(j.input, 'identity', seed)
      const b = runOne(j.output, j.hooks || 'identity', seed)
      if (a.outcome.startsWith('throw:SyntaxError')) { res.inputSyntaxError = true; break }
      if (a.outcome === 'throw:timeout' || b.outcome === 'throw:timeout') { res.timeout = true; continue }
      const sameLog = a.log.length === b.log.length && a.log.every((x, i) => x === b.log[i])
      const sameCo = a.coerce.length === b.coerce.length && a.coerce.every((x, i) => x === b.coerce[i])
      // carve-out of C01: when an exception ends the run, implicit coercions of template substitutions
      // that the input performed before it may not have happened yet in the output (and vice versa)
      if (a.outcome === b.outcome && sameLog && !sameCo && a.outcome.startsWith('throw:')) { res.coercionTimingOnly = (res.coercionTimingOnly || 0) + 1; continue }
      if (a.outcome !== b.outcome || !sameLog || !sameCo) {
        let i = 0
        while (i < a.log.length && i < b.log.length && a.log[i] === b.log[i]) i++
        res.diff = { seed, input: { outcome: a.outcome, at: a.log.slice(Math.max(0, i - 2), i + 3), n: a.log.length, coerce: a.coerce.length },
                     output: { outcome: b.outcome, at: b.log.slice(Math.max(0, i - 2), i + 3), n: b.log.length, coerce: b.coerce.length }, index: i }
        break
      }
      res.events = (res.events || 0) + a.log.length
      if (j.hooks === 'record') res.hooks = b.hooks.slice(0, 50)
    }
  } catch (e) { res.error = String(e && e.stack || e).slice(0, 400) }
  out.push(res)
}
process.stdout.write(JSON.stringify(out))

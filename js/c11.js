'use strict'
// usage: node -r /verif/js/preload.js /verif/js/c11.js <job.json>   (cwd-independent; REPO from env)
const fs = require('fs')
const path = require('path')
const vm = require('vm')
const REPO = process.env.VERIF_REPO || '/repo'
const job = JSON.parse(fs.readFileSync(process.argv[2], 'utf8'))
global.__VERIF_NATIVE = job.native || {}
const out = { findEntry: [], traces: [], histories: [], errors: [] }

const main = require(path.join(REPO, 'main.js'))
const { SourceMap } = require(path.join(REPO, 'js/source-map/node_source_map.js'))
const smIndex = require(path.join(REPO, 'js/source-map/index.js'))

// (a) findEntry / getPathAndLine against the model: raw answers for random maps and positions
for (const q of job.findEntry || []) {
  try {
    const sm = new SourceMap(JSON.parse(q.map))
    main.cacheRewrittenSourceMap(q.file, 'x\n//# sourceMappingURL=data:application/json;base64,' + Buffer.from(q.map).toString('base64'))
    const answers = q.positions.map(([l, c]) => {
      const e = sm.findEntry(l - 1, c - 1)
      const g = smIndex.getSourcePathAndLineFromSourceMaps(q.file, l, c)
      return { entry: [e.generatedLine, e.generatedColumn, e.originalSource, e.originalLine, e.originalColumn, e.name].map(x => x === undefined ? null : x), got: g }
    })
    out.findEntry.push({ id: q.id, answers })
  } catch (e) { out.findEntry.push({ id: q.id, error: String(e && e.stack || e) }) }
}

function runTrace (rewriter, t, userHandler) {
  // t: {file, code, calls: [fnName...]}
  const res = rewriter.rewrite(t.code, t.file)
  const script = new vm.Script(res.content, { filename: t.file })
  const ctx = vm.createContext({ console })
  vm.runInContext("globalThis._ddiast = new Proxy({}, { get: () => (r) => r })", ctx)
  script.runInContext(ctx)
  const frames = []
  for (const fn of t.calls) {
    const prev = Error.prepareStackTrace
    let captured
    try {
      if (userHandler) {
        Error.prepareStackTrace = main.getPrepareStackTrace((err, sites) => sites.map(s => ({ file: s.getFileName(), line: s.getLineNumber(), column: s.getColumnNumber() })))
      } else {
        Error.prepareStackTrace = main.getPrepareStackTrace(undefined)
      }
      try { vm.runInContext(fn + '()', ctx) } catch (e) { captured = e.stack }
    } catch (e) { captured = { threw: String(e) } } finally { Error.prepareStackTrace = prev }
    frames.push({ fn, stack: captured })
  }
  return { status: res.metrics && res.metrics.status, frames }
}

for (const t of job.traces || []) {
  try {
    const Rw = main.Rewriter
    const rw = new Rw({})
    out.traces.push({ id: t.id, structured: runTrace(rw, t, true), formatted: runTrace(rw, t, false) })
  } catch (e) { out.traces.push({ id: t.id, error: String(e && e.stack || e) }) }
}

// (c) histories of rewrites over a set of file names, then a lookup per file
for (const h of job.histories || []) {
  try {
    const rw = new main.Rewriter({})
    const steps = []
    for (const s of h.steps) {
      let r
      if (s.fault === 'map-cache-throws') {
        // the module-level cache of rewritten maps is a Map: make storing this file's map fail, once
        const set = Map.prototype.set
        Map.prototype.set = function (k, v) {
          if (k === s.file && this !== undefined && !(this instanceof WeakMap)) { Map.prototype.set = set; throw new Error('verif: injected source-map cache failure') }
          return set.call(this, k, v)
        }
        try { r = rw.rewrite(s.code, s.file) } finally { Map.prototype.set = set }
      } else {
        r = rw.rewrite(s.code, s.file)
      }
      const looks = (s.lookups || []).map(([l, c]) => smIndex.getSourcePathAndLineFromSourceMaps(s.file, l, c))
      steps.push({ status: r.metrics && r.metrics.status, sameText: r.content === s.code, looks })
    }
    out.histories.push({ id: h.id, steps })
  } catch (e) { out.histories.push({ id: h.id, error: String(e && e.stack || e) }) }
}
// (d) capacity: many distinct rewritten files, then look the early ones up again (the map of the most
// recent rewrite of *every* file must still be there)
if (job.capacity) {
  try {
    const { map, n, positions, probes } = job.capacity
    const trailer = 'x\n//# sourceMappingURL=data:application/json;base64,' + Buffer.from(map).toString('base64')
    for (let i = 0; i < n; i++) main.cacheRewrittenSourceMap('/cap/f' + i + '.js', trailer)
    out.capacity = probes.map(i => ({ i, answers: positions.map(([l, c]) => smIndex.getSourcePathAndLineFromSourceMaps('/cap/f' + i + '.js', l, c)) }))
  } catch (e) { out.capacity = { error: String(e && e.stack || e) } }
}
process.stdout.write(JSON.stringify(out))

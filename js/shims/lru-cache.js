'use strict'
// minimal stand-in for lru-cache v7 (get / set / max), modelled not verified
class LRU {
  constructor (opts) { this.max = (opts && opts.max) || Infinity; this.map = new Map() }
  get (k) {
    if (!this.map.has(k)) return undefined
    const v = this.map.get(k); this.map.delete(k); this.map.set(k, v); return v
  }
  set (k, v) {
    if (this.map.has(k)) this.map.delete(k)
    this.map.set(k, v)
    while (this.map.size > this.max) this.map.delete(this.map.keys().next().value)
    return this
  }
}
module.exports = LRU

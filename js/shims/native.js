'use strict'
const crypto = require('crypto')
function key (code, file) { return crypto.createHash('sha256').update(file + '\u0000' + code).digest('hex') }
class Rewriter {
  constructor (config) { this.config = config }
  rewrite (code, file) {
    const table = global.__VERIF_NATIVE || {}
    const r = table[key(code, file)]
    if (!r) throw new Error('verif shim: no precomputed result for ' + file)
    if (r.error) throw new Error(r.error)
    return JSON.parse(JSON.stringify(r.result))
  }
  csiMethods () { return [] }
  setLogger () {}
}
module.exports = { Rewriter, key }

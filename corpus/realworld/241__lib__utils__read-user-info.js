const { read: _read } = require('read')
const userValidate = require('npm-user-validate')
const { log, input } = require('proc-log')

const otpPrompt = `This command requires a one-time password (OTP) from your authenticator app.
Enter one below. You can also pass one on the command line by appending --otp=123456.
For more information, see:
https://docs.npmjs.com/getting-started/using-two-factor-authentication
Enter OTP: `
const passwordPrompt = 'npm password: '
const usernamePrompt = 'npm username: '
const emailPrompt = 'email (this IS public): '

const read = (...args) => input.read(() => _read(...args))

function readOTP (msg = otpPrompt, otp, isRetry) {
  if (isRetry && otp && /^[\d ]+$|^[A-Fa-f0-9]{64,64}$/.test(otp)) {
    return otp.replace(/\s+/g, '')
  }

  return read({ prompt: msg, default: otp || '' })
    .then((rOtp) => readOTP(msg, rOtp, true))
}

function readPassword (msg = passwordPrompt, password, isRetry) {
  if (isRetry && password) {
    return password
  }

  return read({ prompt: msg, silent: true, default: password || '' })
    .then((rPassword) => readPassword(msg, rPassword, true))
}

function readUsername (msg = usernamePrompt, username, isRetry) {
  if (isRetry && username) {
    const error = userValidate.username(username)
    if (error) {
      log.warn(error.message)
    } else {
      return Promise.resolve(username.trim())
    }
  }

  return read({ prompt: msg, default: username || '' })
    .then((rUsername) => readUsername(msg, rUsername, true))
}

function readEmail (msg = emailPrompt, email, isRetry) {
  if (isRetry && email) {
    const error = userValidate.email(email)
    if (error) {
      log.warn(error.message)
    } else {
      return email.trim()
    }
  }

  return read({ prompt: msg, default: email || '' })
    .then((username) => readEmail(msg, username, true))
}

module.exports = {
  otp: readOTP,
  password: readPassword,
  username: readUsername,
  email: readEmail,
}

const pkgJson = require('@npmcli/package-json')
const runScript = require('@npmcli/run-script')
const { join, relative } = require('node:path')
const { log, output } = require('proc-log')
const completion = require('../utils/installed-shallow.js')
const BaseCommand = require('../base-cmd.js')

// npm explore <pkg>[@<version>]
// open a subshell to the package folder.
class Explore extends BaseCommand {
  static description = 'Browse an installed package'
  static name = 'explore'
  static usage = ['<pkg> [ -- <command>]']
  static params = ['shell']
  static ignoreImplicitWorkspace = false

  // TODO
  /* istanbul ignore next */
  static async completion (opts, npm) {
    return completion(npm, opts)
  }

  async exec (args) {
    if (args.length < 1 || !args[0]) {
      throw this.usageError()
    }

    const pkgname = args.shift()

    // detect and prevent any .. shenanigans
    const path = join(this.npm.dir, join('/', pkgname))
    if (relative(path, this.npm.dir) === '') {
      throw this.usageError()
    }

    // run as if running a script named '_explore', which we set to either
    // the set of arguments, or the shell config, and let @npmcli/run-script
    // handle all the escaping and PATH setup stuff.

    const { content: pkg } = await pkgJson.normalize(path).catch(er => {
      log.error('explore', `It doesn't look like ${pkgname} is installed.`)
      throw er
    })

    const { shell } = this.npm.flatOptions
    pkg.scripts = {
      ...(pkg.scripts || {}),
      _explore: args.join(' ').trim() || shell,
    }

    if (!args.length) {
      output.standard(`\nExploring ${path}\nType 'exit' or ^D when finished\n`)
    }

    return runScript({
      ...this.npm.flatOptions,
      pkg,
      path,
      event: '_explore',
      stdio: 'inherit',
    }).catch(er => {
      process.exitCode = typeof er.code === 'number' && er.code !== 0 ? er.code
        : 1
        // if it's not an exit error, or non-interactive, throw it
      const isProcExit = er.message === 'command failed' &&
          (typeof er.code === 'number' || /^SIG/.test(er.signal || ''))
      if (args.length || !isProcExit) {
        throw er
      }
    })
  }
}

module.exports = Explore

const Npm = require('../npm.js')
const BaseCommand = require('../base-cmd.js')

class Get extends BaseCommand {
  static description = 'Get a value from the npm configuration'
  static name = 'get'
  static usage = ['[<key> ...] (See `npm config`)']
  static params = ['long']
  static ignoreImplicitWorkspace = false

  // TODO
  /* istanbul ignore next */
  static async completion (opts) {
    const Config = Npm.cmd('config')
    return Config.completion(opts)
  }

  async exec (args) {
    return this.npm.exec('config', ['get'].concat(args))
  }
}

module.exports = Get

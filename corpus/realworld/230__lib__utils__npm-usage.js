const { commands } = require('./cmd-list')

const COL_MAX = 60
const COL_MIN = 24
const COL_GUTTER = 16
const INDENT = 4

const indent = (repeat = INDENT) => ' '.repeat(repeat)
const indentNewline = (repeat) => `\n${indent(repeat)}`

module.exports = (npm) => {
  const browser = npm.config.get('viewer') === 'browser' ? ' (in a browser)' : ''
  const allCommands = npm.config.get('long') ? cmdUsages(npm.constructor) : cmdNames()

  return `npm <command>

Usage:

npm install        install all the dependencies in your project
npm install <foo>  add the <foo> dependency to your project
npm test           run this project's tests
npm run <foo>      run the script named <foo>
npm <command> -h   quick help on <command>
npm -l             display usage info for all commands
npm help <term>    search for help on <term>${browser}
npm help npm       more involved overview${browser}

All commands:
${allCommands}

Specify configs in the ini-formatted file:
${indent() + npm.config.get('userconfig')}
or on the command line via: npm <command> --key=value

More configuration info: npm help config
Configuration fields: npm help 7 config

npm@${npm.version} ${npm.npmRoot}`
}

const cmdNames = () => {
  const out = ['']

  const line = !process.stdout.columns ? COL_MAX
    : Math.min(COL_MAX, Math.max(process.stdout.columns - COL_GUTTER, COL_MIN))

  let l = 0
  for (const c of commands) {
    if (out[l].length + c.length + 2 < line) {
      out[l] += ', ' + c
    } else {
      out[l++] += ','
      out[l] = c
    }
  }

  return indentNewline() + out.join(indentNewline()).slice(2)
}

const cmdUsages = (Npm) => {
  // return a string of <command>: <usage>
  let maxLen = 0
  const set = []
  for (const c of commands) {
    set.push([c, Npm.cmd(c).describeUsage.split('\n')])
    maxLen = Math.max(maxLen, c.length)
  }

  return set.map(([name, usageLines]) => {
    const gutter = indent(maxLen - name.length + 1)
    const usage = usageLines.join(indentNewline(INDENT + maxLen + 1))
    return indentNewline() + name + gutter + usage
  }).join('\n')
}

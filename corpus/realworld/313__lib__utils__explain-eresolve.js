// this is called when an ERESOLVE error is caught in the exit-handler,
// or when there's a log.warn('eresolve', msg, explanation), to turn it
// into a human-intelligible explanation of what's wrong and how to fix.
const { explainEdge, explainNode, printNode } = require('./explain-dep.js')

// expl is an explanation object that comes from Arborist.  It looks like:
// Depth is how far we want to want to descend into the object making a report.
// The full report (ie, depth=Infinity) is always written to the cache folder
// at ${cache}/eresolve-report.txt along with full json.
const explain = (expl, chalk, depth) => {
  const { edge, dep, current, peerConflict, currentEdge } = expl

  const out = []
  const whileInstalling = dep && dep.whileInstalling ||
    current && current.whileInstalling ||
    edge && edge.from && edge.from.whileInstalling
  if (whileInstalling) {
    out.push('While resolving: ' + printNode(whileInstalling, chalk))
  }

  // it "should" be impossible for an ERESOLVE explanation to lack both
  // current and currentEdge, but better to have a less helpful error
  // than a crashing failure.
  if (current) {
    out.push('Found: ' + explainNode(current, depth, chalk))
  } else if (peerConflict && peerConflict.current) {
    out.push('Found: ' + explainNode(peerConflict.current, depth, chalk))
  } else if (currentEdge) {
    out.push('Found: ' + explainEdge(currentEdge, depth, chalk))
  } else /* istanbul ignore else - should always have one */ if (edge) {
    out.push('Found: ' + explainEdge(edge, depth, chalk))
  }

  out.push('\nCould not resolve dependency:\n' +
    explainEdge(edge, depth, chalk))

  if (peerConflict) {
    const heading = '\nConflicting peer dependency:'
    const pc = explainNode(peerConflict.peer, depth, chalk)
    out.push(heading + ' ' + pc)
  }

  return out.join('\n')
}

// generate a full verbose report and tell the user how to fix it
const report = (expl, chalk, noColorChalk) => {
  const flags = [
    expl.strictPeerDeps ? '--no-strict-peer-deps' : '',
    '--force',
    '--legacy-peer-deps',
  ].filter(Boolean)

  const or = (arr) => arr.length <= 2
    ? arr.join(' or ') :
    arr.map((v, i, l) => i + 1 === l.length ? `or ${v}` : v).join(', ')

  const fix = `Fix the upstream dependency conflict, or retry
this command with ${or(flags)}
to accept an incorrect (and potentially broken) dependency resolution.`

  return {
    explanation: `${explain(expl, chalk, 4)}\n\n${fix}`,
    file: `# npm resolution error report\n\n${explain(expl, noColorChalk, Infinity)}\n\n${fix}`,
  }
}

module.exports = {
  explain,
  report,
}

// compares the inventory of package items in the tree
// that is about to be installed (idealTree) with the inventory
// of items stored in the package-lock file (virtualTree)
//
// Returns empty array if no errors found or an array populated
// with an entry for each validation error found.
function validateLockfile (virtualTree, idealTree) {
  const errors = []

  // loops through the inventory of packages resulted by ideal tree,
  // for each package compares the versions with the version stored in the
  // package-lock and adds an error to the list in case of mismatches
  for (const [key, entry] of idealTree.entries()) {
    const lock = virtualTree.get(key)

    if (!lock) {
      errors.push(`Missing: ${entry.name}@${entry.version} from lock file`)
      continue
    }

    if (entry.version !== lock.version) {
      errors.push(`Invalid: lock file's ${lock.name}@${lock.version} does ` +
      `not satisfy ${entry.name}@${entry.version}`)
    }
  }
  return errors
}

module.exports = validateLockfile

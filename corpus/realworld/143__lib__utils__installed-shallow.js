const { readdirScoped } = require('@npmcli/fs')

const installedShallow = async (npm, opts) => {
  const names = async global => {
    const paths = await readdirScoped(global ? npm.globalDir : npm.localDir)
    return paths.map(p => p.replace(/\\/g, '/'))
  }
  const { conf: { argv: { remain } } } = opts
  if (remain.length > 3) {
    return null
  }

  const { global } = npm.flatOptions
  const locals = global ? [] : await names(false)
  const globals = (await names(true)).map(n => global ? n : `${n} -g`)
  return [...locals, ...globals]
}

module.exports = installedShallow

const cacache = require('cacache')
const { access, lstat, readdir, constants: { R_OK, W_OK, X_OK } } = require('node:fs/promises')
const fetch = require('make-fetch-happen')
const which = require('which')
const pacote = require('pacote')
const { resolve } = require('node:path')
const semver = require('semver')
const { log, output } = require('proc-log')
const ping = require('../utils/ping.js')
const { defaults } = require('@npmcli/config/lib/definitions')
const BaseCommand = require('../base-cmd.js')

const maskLabel = mask => {
  const label = []
  if (mask & R_OK) {
    label.push('readable')
  }

  if (mask & W_OK) {
    label.push('writable')
  }

  if (mask & X_OK) {
    label.push('executable')
  }

  return label.join(', ')
}

const subcommands = [
  {
    // Ping is left in as a legacy command but is listed as "connection" to
    // make more sense to more people
    groups: ['connection', 'ping', 'registry'],
    title: 'Connecting to the registry',
    cmd: 'checkPing',
  }, {
    groups: ['versions'],
    title: 'Checking npm version',
    cmd: 'getLatestNpmVersion',
  }, {
    groups: ['versions'],
    title: 'Checking node version',
    cmd: 'getLatestNodejsVersion',
  }, {
    groups: ['registry'],
    title: 'Checking configured npm registry',
    cmd: 'checkNpmRegistry',
  }, {
    groups: ['environment'],
    title: 'Checking for git executable in PATH',
    cmd: 'getGitPath',
  }, {
    groups: ['environment'],
    title: 'Checking for global bin folder in PATH',
    cmd: 'getBinPath',
  }, {
    groups: ['permissions', 'cache'],
    title: 'Checking permissions on cached files (this may take awhile)',
    cmd: 'checkCachePermission',
    windows: false,
  }, {
    groups: ['permissions'],
    title: 'Checking permissions on local node_modules (this may take awhile)',
    cmd: 'checkLocalModulesPermission',
    windows: false,
  }, {
    groups: ['permissions'],
    title: 'Checking permissions on global node_modules (this may take awhile)',
    cmd: 'checkGlobalModulesPermission',
    windows: false,
  }, {
    groups: ['permissions'],
    title: 'Checking permissions on local bin folder',
    cmd: 'checkLocalBinPermission',
    windows: false,
  }, {
    groups: ['permissions'],
    title: 'Checking permissions on global bin folder',
    cmd: 'checkGlobalBinPermission',
    windows: false,
  }, {
    groups: ['cache'],
    title: 'Verifying cache contents (this may take awhile)',
    cmd: 'verifyCachedFiles',
    windows: false,
  },
  // TODO:
  // group === 'dependencies'?
  //   - ensure arborist.loadActual() runs without errors and no invalid edges
  //   - ensure package-lock.json matches loadActual()
  //   - verify loadActual without hidden lock file matches hidden lockfile
  // group === '???'
  //   - verify all local packages have bins linked
  // What is the fix for these?
]

class Doctor extends BaseCommand {
  static description = 'Check the health of your npm environment'
  static name = 'doctor'
  static params = ['registry']
  static ignoreImplicitWorkspace = false
  static usage = [`[${subcommands.flatMap(s => s.groups)
    .filter((value, index, self) => self.indexOf(value) === index && value !== 'ping')
    .join('] [')}]`]

  static subcommands = subcommands

  async exec (args) {
    log.info('doctor', 'Running checkup')
    let allOk = true

    const actions = this.actions(args)

    const chalk = this.npm.chalk
    for (const { title, cmd } of actions) {
      this.output(title)
      // TODO when we have an in progress indicator that could go here
      let result
      try {
        result = await this[cmd]()
        this.output(`${chalk.green('Ok')}${result ? `\n${result}` : ''}\n`)
      } catch (err) {
        allOk = false
        this.output(`${chalk.red('Not ok')}\n${chalk.cyan(err)}\n`)
      }
    }

    if (!allOk) {
      if (this.npm.silent) {
        /* eslint-disable-next-line max-len */
        throw new Error('Some problems found. Check logs or disable silent mode for recommendations.')
      } else {
        throw new Error('Some problems found. See above for recommendations.')
      }
    }
  }

  async checkPing () {
    log.info('doctor', 'Pinging registry')
    try {
      await ping({ ...this.npm.flatOptions, retry: false })
      return ''
    } catch (er) {
      if (/^E\d{3}$/.test(er.code || '')) {
        throw er.code.slice(1) + ' ' + er.message
      } else {
        throw er.message
      }
    }
  }

  async getLatestNpmVersion () {
    log.info('doctor', 'Getting npm package information')
    const latest = (await pacote.manifest('npm@latest', this.npm.flatOptions)).version
    if (semver.gte(this.npm.version, latest)) {
      return `current: v${this.npm.version}, latest: v${latest}`
    } else {
      throw `Use npm v${latest}`
    }
  }

  async getLatestNodejsVersion () {
    // XXX get the latest in the current major as well
    const current = process.version
    const currentRange = `^${current}`
    const url = 'https://nodejs.org/dist/index.json'
    log.info('doctor', 'Getting Node.js release information')
    const res = await fetch(url, { method: 'GET', ...this.npm.flatOptions })
    const data = await res.json()
    let maxCurrent = '0.0.0'
    let maxLTS = '0.0.0'
    for (const { lts, version } of data) {
      if (lts && semver.gt(version, maxLTS)) {
        maxLTS = version
      }

      if (semver.satisfies(version, currentRange) && semver.gt(version, maxCurrent)) {
        maxCurrent = version
      }
    }
    const recommended = semver.gt(maxCurrent, maxLTS) ? maxCurrent : maxLTS
    if (semver.gte(process.version, recommended)) {
      return `current: ${current}, recommended: ${recommended}`
    } else {
      throw `Use node ${recommended} (current: ${current})`
    }
  }

  async getBinPath () {
    log.info('doctor', 'getBinPath', 'Finding npm global bin in your PATH')
    if (!process.env.PATH.includes(this.npm.globalBin)) {
      throw new Error(`Add ${this.npm.globalBin} to your $PATH`)
    }
    return this.npm.globalBin
  }

  async checkCachePermission () {
    return this.checkFilesPermission(this.npm.cache, true, R_OK)
  }

  async checkLocalModulesPermission () {
    return this.checkFilesPermission(this.npm.localDir, true, R_OK | W_OK, true)
  }

  async checkGlobalModulesPermission () {
    return this.checkFilesPermission(this.npm.globalDir, false, R_OK)
  }

  async checkLocalBinPermission () {
    return this.checkFilesPermission(this.npm.localBin, false, R_OK | W_OK | X_OK, true)
  }

  async checkGlobalBinPermission () {
    return this.checkFilesPermission(this.npm.globalBin, false, X_OK)
  }

  async checkFilesPermission (root, shouldOwn, mask, missingOk) {
    let ok = true

    try {
      const uid = process.getuid()
      const gid = process.getgid()
      const files = new Set([root])
      for (const f of files) {
        const st = await lstat(f).catch(er => {
          // if it can't be missing, or if it can and the error wasn't that it was missing
          if (!missingOk || er.code !== 'ENOENT') {
            ok = false
            log.warn('doctor', 'checkFilesPermission', 'error getting info for ' + f)
          }
        })

        if (!st) {
          continue
        }

        if (shouldOwn && (uid !== st.uid || gid !== st.gid)) {
          log.warn('doctor', 'checkFilesPermission', 'should be owner of ' + f)
          ok = false
        }

        if (!st.isDirectory() && !st.isFile()) {
          continue
        }

        try {
          await access(f, mask)
        } catch (er) {
          ok = false
          const msg = `Missing permissions on ${f} (expect: ${maskLabel(mask)})`
          log.error('doctor', 'checkFilesPermission', msg)
          continue
        }

        if (st.isDirectory()) {
          const entries = await readdir(f).catch(() => {
            ok = false
            log.warn('doctor', 'checkFilesPermission', 'error reading directory ' + f)
            return []
          })
          for (const entry of entries) {
            files.add(resolve(f, entry))
          }
        }
      }
    } finally {
      if (!ok) {
        throw (
          `Check the permissions of files in ${root}` +
          (shouldOwn ? ' (should be owned by current user)' : '')
        )
      } else {
        return ''
      }
    }
  }

  async getGitPath () {
    log.info('doctor', 'Finding git in your PATH')
    return await which('git').catch(er => {
      log.warn('doctor', 'getGitPath', er)
      throw new Error("Install git and ensure it's in your PATH.")
    })
  }

  async verifyCachedFiles () {
    log.info('doctor', 'verifyCachedFiles', 'Verifying the npm cache')

    const stats = await cacache.verify(this.npm.flatOptions.cache)
    const { badContentCount, reclaimedCount, missingContent, reclaimedSize } = stats
    if (badContentCount || reclaimedCount || missingContent) {
      if (badContentCount) {
        log.warn('doctor', 'verifyCachedFiles', `Corrupted content removed: ${badContentCount}`)
      }

      if (reclaimedCount) {
        log.warn(
          'doctor',
          'verifyCachedFiles',
          `Content garbage-collected: ${reclaimedCount} (${reclaimedSize} bytes)`
        )
      }

      if (missingContent) {
        log.warn('doctor', 'verifyCachedFiles', `Missing content: ${missingContent}`)
      }

      log.warn('doctor', 'verifyCachedFiles', 'Cache issues have been fixed')
    }
    log.info(
      'doctor',
      'verifyCachedFiles',
        `Verification complete. Stats: ${JSON.stringify(stats, null, 2)}`
    )
    return `verified ${stats.verifiedContent} tarballs`
  }

  async checkNpmRegistry () {
    if (this.npm.flatOptions.registry !== defaults.registry) {
      throw `Try \`npm config set registry=${defaults.registry}\``
    } else {
      return `using default registry (${defaults.registry})`
    }
  }

  output (...args) {
    // TODO display layer should do this
    if (!this.npm.silent) {
      output.standard(...args)
    }
  }

  actions (params) {
    return this.constructor.subcommands.filter(subcmd => {
      if (process.platform === 'win32' && subcmd.windows === false) {
        return false
      }
      if (params.length) {
        return params.some(param => subcmd.groups.includes(param))
      }
      return true
    })
  }
}

module.exports = Doctor

const { log, output } = require('proc-log')
const { listTokens, createToken, removeToken } = require('npm-profile')
const { otplease } = require('../utils/auth.js')
const readUserInfo = require('../utils/read-user-info.js')
const BaseCommand = require('../base-cmd.js')

class Token extends BaseCommand {
  static description = 'Manage your authentication tokens'
  static name = 'token'
  static usage = ['list', 'revoke <id|token>', 'create [--read-only] [--cidr=list]']
  static params = ['read-only', 'cidr', 'registry', 'otp']

  static async completion (opts) {
    const argv = opts.conf.argv.remain
    const subcommands = ['list', 'revoke', 'create']
    if (argv.length === 2) {
      return subcommands
    }

    if (subcommands.includes(argv[2])) {
      return []
    }

    throw new Error(argv[2] + ' not recognized')
  }

  async exec (args) {
    if (args.length === 0) {
      return this.list()
    }
    switch (args[0]) {
      case 'list':
      case 'ls':
        return this.list()
      case 'rm':
      case 'delete':
      case 'revoke':
      case 'remove':
        return this.rm(args.slice(1))
      case 'create':
        return this.create(args.slice(1))
      default:
        throw this.usageError(`${args[0]} is not a recognized subcommand.`)
    }
  }

  async list () {
    const json = this.npm.config.get('json')
    const parseable = this.npm.config.get('parseable')
    log.info('token', 'getting list')
    const tokens = await listTokens(this.npm.flatOptions)
    if (json) {
      output.buffer(tokens)
      return
    }
    if (parseable) {
      output.standard(['key', 'token', 'created', 'readonly', 'CIDR whitelist'].join('\t'))
      tokens.forEach(token => {
        output.standard(
          [
            token.key,
            token.token,
            token.created,
            token.readonly ? 'true' : 'false',
            token.cidr_whitelist ? token.cidr_whitelist.join(',') : '',
          ].join('\t')
        )
      })
      return
    }
    this.generateTokenIds(tokens, 6)
    const chalk = this.npm.chalk
    for (const token of tokens) {
      const level = token.readonly ? 'Read only token' : 'Publish token'
      const created = String(token.created).slice(0, 10)
      /* eslint-disable-next-line max-len */
      output.standard(`${chalk.blue(level)} ${token.token}… with id ${chalk.cyan(token.id)} created ${created}`)
      if (token.cidr_whitelist) {
        output.standard(`with IP whitelist: ${chalk.green(token.cidr_whitelist.join(','))}`)
      }
      output.standard()
    }
  }

  async rm (args) {
    if (args.length === 0) {
      throw this.usageError('`<tokenKey>` argument is required.')
    }

    const json = this.npm.config.get('json')
    const parseable = this.npm.config.get('parseable')
    const toRemove = []
    const opts = { ...this.npm.flatOptions }
    log.info('token', `removing ${toRemove.length} tokens`)
    const tokens = await listTokens(opts)
    args.forEach(id => {
      const matches = tokens.filter(token => token.key.indexOf(id) === 0)
      if (matches.length === 1) {
        toRemove.push(matches[0].key)
      } else if (matches.length > 1) {
        throw new Error(
          /* eslint-disable-next-line max-len */
          `Token ID "${id}" was ambiguous, a new token may have been created since you last ran \`npm token list\`.`
        )
      } else {
        const tokenMatches = tokens.some(t => id.indexOf(t.token) === 0)
        if (!tokenMatches) {
          throw new Error(`Unknown token id or value "${id}".`)
        }

        toRemove.push(id)
      }
    })
    await Promise.all(
      toRemove.map(key => {
        return otplease(this.npm, opts, c => removeToken(key, c))
      })
    )
    if (json) {
      output.buffer(toRemove)
    } else if (parseable) {
      output.standard(toRemove.join('\t'))
    } else {
      output.standard('Removed ' + toRemove.length + ' token' + (toRemove.length !== 1 ? 's' : ''))
    }
  }

  async create () {
    const json = this.npm.config.get('json')
    const parseable = this.npm.config.get('parseable')
    const cidr = this.npm.config.get('cidr')
    const readonly = this.npm.config.get('read-only')

    const validCIDR = await this.validateCIDRList(cidr)
    const password = await readUserInfo.password()
    log.info('token', 'creating')
    const result = await otplease(
      this.npm,
      { ...this.npm.flatOptions },
      c => createToken(password, readonly, validCIDR, c)
    )
    delete result.key
    delete result.updated
    if (json) {
      output.buffer(result)
    } else if (parseable) {
      Object.keys(result).forEach(k => output.standard(k + '\t' + result[k]))
    } else {
      const chalk = this.npm.chalk
      // Identical to list
      const level = result.readonly ? 'read only' : 'publish'
      output.standard(`Created ${chalk.blue(level)} token ${result.token}`)
      if (result.cidr_whitelist?.length) {
        output.standard(`with IP whitelist: ${chalk.green(result.cidr_whitelist.join(','))}`)
      }
    }
  }

  invalidCIDRError (msg) {
    return Object.assign(new Error(msg), { code: 'EINVALIDCIDR' })
  }

  generateTokenIds (tokens, minLength) {
    for (const token of tokens) {
      token.id = token.key
      for (let ii = minLength; ii < token.key.length; ++ii) {
        const match = tokens.some(
          ot => ot !== token && ot.key.slice(0, ii) === token.key.slice(0, ii)
        )
        if (!match) {
          token.id = token.key.slice(0, ii)
          break
        }
      }
    }
  }

  async validateCIDRList (cidrs) {
    const { v4: isCidrV4, v6: isCidrV6 } = await import('is-cidr')
    const maybeList = [].concat(cidrs).filter(Boolean)
    const list = maybeList.length === 1 ? maybeList[0].split(/,\s*/) : maybeList
    for (const cidr of list) {
      if (isCidrV6(cidr)) {
        throw this.invalidCIDRError(
          `CIDR whitelist can only contain IPv4 addresses${cidr} is IPv6`
        )
      }

      if (!isCidrV4(cidr)) {
        throw this.invalidCIDRError(`CIDR whitelist contains invalid CIDR entry: ${cidr}`)
      }
    }
    return list
  }
}

module.exports = Token

const { inspect } = require('node:util')
const { URL } = require('node:url')
const { log, output } = require('proc-log')
const { get, set, createToken } = require('npm-profile')
const qrcodeTerminal = require('qrcode-terminal')
const { otplease } = require('../utils/auth.js')
const readUserInfo = require('../utils/read-user-info.js')
const BaseCommand = require('../base-cmd.js')

const qrcode = url =>
  new Promise((resolve) => qrcodeTerminal.generate(url, resolve))

const knownProfileKeys = [
  'name',
  'email',
  'two-factor auth',
  'fullname',
  'homepage',
  'freenode',
  'twitter',
  'github',
  'created',
  'updated',
]

const writableProfileKeys = [
  'email',
  'password',
  'fullname',
  'homepage',
  'freenode',
  'twitter',
  'github',
]

class Profile extends BaseCommand {
  static description = 'Change settings on your registry profile'
  static name = 'profile'
  static usage = [
    'enable-2fa [auth-only|auth-and-writes]',
    'disable-2fa',
    'get [<key>]',
    'set <key> <value>',
  ]

  static params = [
    'registry',
    'json',
    'parseable',
    'otp',
  ]

  static async completion (opts) {
    var argv = opts.conf.argv.remain

    if (!argv[2]) {
      return ['enable-2fa', 'disable-2fa', 'get', 'set']
    }

    switch (argv[2]) {
      case 'enable-2fa':
      case 'enable-tfa':
        return ['auth-and-writes', 'auth-only']

      case 'disable-2fa':
      case 'disable-tfa':
      case 'get':
      case 'set':
        return []
      default:
        throw new Error(argv[2] + ' not recognized')
    }
  }

  async exec (args) {
    if (args.length === 0) {
      throw this.usageError()
    }

    const [subcmd, ...opts] = args

    switch (subcmd) {
      case 'enable-2fa':
      case 'enable-tfa':
      case 'enable2fa':
      case 'enabletfa':
        return this.enable2fa(opts)
      case 'disable-2fa':
      case 'disable-tfa':
      case 'disable2fa':
      case 'disabletfa':
        return this.disable2fa()
      case 'get':
        return this.get(opts)
      case 'set':
        return this.set(opts)
      default:
        throw new Error('Unknown profile command: ' + subcmd)
    }
  }

  async get (args) {
    const tfa = 'two-factor auth'
    const info = await get({ ...this.npm.flatOptions })

    if (!info.cidr_whitelist) {
      delete info.cidr_whitelist
    }

    if (this.npm.config.get('json')) {
      output.buffer(info)
      return
    }

    // clean up and format key/values for output
    const cleaned = {}
    for (const key of knownProfileKeys) {
      cleaned[key] = info[key] || ''
    }

    const unknownProfileKeys = Object.keys(info).filter((k) => !(k in cleaned))
    for (const key of unknownProfileKeys) {
      cleaned[key] = info[key] || ''
    }

    delete cleaned.tfa
    delete cleaned.email_verified
    cleaned.email += info.email_verified ? ' (verified)' : '(unverified)'

    if (info.tfa && !info.tfa.pending) {
      cleaned[tfa] = info.tfa.mode
    } else {
      cleaned[tfa] = 'disabled'
    }

    if (args.length) {
      const values = args // comma or space separated
        .join(',')
        .split(/,/)
        .filter((arg) => arg.trim() !== '')
        .map((arg) => cleaned[arg])
        .join('\t')
      output.standard(values)
    } else {
      if (this.npm.config.get('parseable')) {
        for (const key of Object.keys(info)) {
          if (key === 'tfa') {
            output.standard(`${key}\t${cleaned[tfa]}`)
          } else {
            output.standard(`${key}\t${info[key]}`)
          }
        }
      } else {
        for (const [key, value] of Object.entries(cleaned)) {
          output.standard(`${key}: ${value}`)
        }
      }
    }
  }

  async set (args) {
    const conf = { ...this.npm.flatOptions }
    const prop = (args[0] || '').toLowerCase().trim()

    let value = args.length > 1 ? args.slice(1).join(' ') : null

    const readPasswords = async () => {
      const newpassword = await readUserInfo.password('New password: ')
      const confirmedpassword = await readUserInfo.password('       Again:     ')

      if (newpassword !== confirmedpassword) {
        log.warn('profile', 'Passwords do not match, please try again.')
        return readPasswords()
      }

      return newpassword
    }

    if (prop !== 'password' && value === null) {
      throw new Error('npm profile set <prop> <value>')
    }

    if (prop === 'password' && value !== null) {
      throw new Error(
        'npm profile set password\n' +
        'Do not include your current or new passwords on the command line.')
    }

    if (writableProfileKeys.indexOf(prop) === -1) {
      throw new Error(`"${prop}" is not a property we can set. ` +
        `Valid properties are: ` + writableProfileKeys.join(', '))
    }

    if (prop === 'password') {
      const current = await readUserInfo.password('Current password: ')
      const newpassword = await readPasswords()

      value = { old: current, new: newpassword }
    }

    // FIXME: Work around to not clear everything other than what we're setting
    const user = await get(conf)
    const newUser = {}

    for (const key of writableProfileKeys) {
      newUser[key] = user[key]
    }

    newUser[prop] = value

    const result = await otplease(this.npm, conf, c => set(newUser, c))

    if (this.npm.config.get('json')) {
      output.buffer({ [prop]: result[prop] })
    } else if (this.npm.config.get('parseable')) {
      output.standard(prop + '\t' + result[prop])
    } else if (result[prop] != null) {
      output.standard('Set', prop, 'to', result[prop])
    } else {
      output.standard('Set', prop)
    }
  }

  async enable2fa (args) {
    if (args.length > 1) {
      throw new Error('npm profile enable-2fa [auth-and-writes|auth-only]')
    }

    const mode = args[0] || 'auth-and-writes'
    if (mode !== 'auth-only' && mode !== 'auth-and-writes') {
      throw new Error(
        `Invalid two-factor authentication mode "${mode}".\n` +
        'Valid modes are:\n' +
        '  auth-only - Require two-factor authentication only when logging in\n' +
        '  auth-and-writes - Require two-factor authentication when logging in ' +
        'AND when publishing'
      )
    }

    if (this.npm.config.get('json') || this.npm.config.get('parseable')) {
      throw new Error(
        'Enabling two-factor authentication is an interactive operation and ' +
        (this.npm.config.get('json') ? 'JSON' : 'parseable') + ' output mode is not available'
      )
    }

    const info = {
      tfa: {
        mode: mode,
      },
    }

    // if they're using legacy auth currently then we have to
    // update them to a bearer token before continuing.
    const creds = this.npm.config.getCredentialsByURI(this.npm.config.get('registry'))
    const auth = {}

    if (creds.token) {
      auth.token = creds.token
    } else if (creds.username) {
      auth.basic = { username: creds.username, password: creds.password }
    } else if (creds.auth) {
      const basic = Buffer.from(creds.auth, 'base64').toString().split(':', 2)
      auth.basic = { username: basic[0], password: basic[1] }
    }

    if (!auth.basic && !auth.token) {
      throw new Error(
        'You need to be logged in to registry ' +
        `${this.npm.config.get('registry')} in order to enable 2fa`
      )
    }

    if (auth.basic) {
      log.info('profile', 'Updating authentication to bearer token')
      const result = await createToken(
        auth.basic.password, false, [], { ...this.npm.flatOptions }
      )

      if (!result.token) {
        throw new Error(
          `Your registry ${this.npm.config.get('registry')} does not seem to ` +
          'support bearer tokens. Bearer tokens are required for ' +
          'two-factor authentication'
        )
      }

      this.npm.config.setCredentialsByURI(
        this.npm.config.get('registry'),
        { token: result.token }
      )
      await this.npm.config.save('user')
    }

    log.notice('profile', 'Enabling two factor authentication for ' + mode)
    const password = await readUserInfo.password()
    info.tfa.password = password

    log.info('profile', 'Determine if tfa is pending')
    const userInfo = await get({ ...this.npm.flatOptions })

    const conf = { ...this.npm.flatOptions }
    if (userInfo && userInfo.tfa && userInfo.tfa.pending) {
      log.info('profile', 'Resetting two-factor authentication')
      await set({ tfa: { password, mode: 'disable' } }, conf)
    } else if (userInfo && userInfo.tfa) {
      if (!conf.otp) {
        conf.otp = await readUserInfo.otp(
          'Enter one-time password: '
        )
      }
    }

    log.info('profile', 'Setting two-factor authentication to ' + mode)
    const challenge = await set(info, conf)

    if (challenge.tfa === null) {
      output.standard('Two factor authentication mode changed to: ' + mode)
      return
    }

    const badResponse = typeof challenge.tfa !== 'string'
      || !/^otpauth:[/][/]/.test(challenge.tfa)
    if (badResponse) {
      throw new Error(
        'Unknown error enabling two-factor authentication. Expected otpauth URL' +
        ', got: ' + inspect(challenge.tfa)
      )
    }

    const otpauth = new URL(challenge.tfa)
    const secret = otpauth.searchParams.get('secret')
    const code = await qrcode(challenge.tfa)

    output.standard(
      'Scan into your authenticator app:\n' + code + '\n Or enter code:', secret
    )

    const interactiveOTP =
      await readUserInfo.otp('And an OTP code from your authenticator: ')

    log.info('profile', 'Finalizing two-factor authentication')

    const result = await set({ tfa: [interactiveOTP] }, conf)

    output.standard(
      '2FA successfully enabled. Below are your recovery codes, ' +
      'please print these out.'
    )
    output.standard(
      'You will need these to recover access to your account ' +
      'if you lose your authentication device.'
    )

    for (const tfaCode of result.tfa) {
      output.standard('\t' + tfaCode)
    }
  }

  async disable2fa () {
    const conf = { ...this.npm.flatOptions }
    const info = await get(conf)

    if (!info.tfa || info.tfa.pending) {
      output.standard('Two factor authentication not enabled.')
      return
    }

    const password = await readUserInfo.password()

    if (!conf.otp) {
      const msg = 'Enter one-time password: '
      conf.otp = await readUserInfo.otp(msg)
    }

    log.info('profile', 'disabling tfa')

    await set({ tfa: { password: password, mode: 'disable' } }, conf)

    if (this.npm.config.get('json')) {
      output.buffer({ tfa: false })
    } else if (this.npm.config.get('parseable')) {
      output.standard('tfa\tfalse')
    } else {
      output.standard('Two factor authentication disabled.')
    }
  }
}

module.exports = Profile

const { resolve } = require('node:path')
const { output } = require('proc-log')
const npa = require('npm-package-arg')
const semver = require('semver')
const ArboristWorkspaceCmd = require('../arborist-cmd.js')

class Rebuild extends ArboristWorkspaceCmd {
  static description = 'Rebuild a package'
  static name = 'rebuild'
  static params = [
    'global',
    'bin-links',
    'foreground-scripts',
    'ignore-scripts',
    ...super.params,
  ]

  static usage = ['[<package-spec>] ...]']

  // TODO
  /* istanbul ignore next */
  static async completion (opts, npm) {
    const completion = require('../utils/installed-deep.js')
    return completion(npm, opts)
  }

  async exec (args) {
    const globalTop = resolve(this.npm.globalDir, '..')
    const where = this.npm.global ? globalTop : this.npm.prefix
    const Arborist = require('@npmcli/arborist')
    const arb = new Arborist({
      ...this.npm.flatOptions,
      path: where,
      // TODO when extending ReifyCmd
      // workspaces: this.workspaceNames,
    })

    if (args.length) {
      // get the set of nodes matching the name that we want rebuilt
      const tree = await arb.loadActual()
      const specs = args.map(arg => {
        const spec = npa(arg)
        if (spec.rawSpec === '*') {
          return spec
        }

        if (spec.type !== 'range' && spec.type !== 'version' && spec.type !== 'directory') {
          throw new Error('`npm rebuild` only supports SemVer version/range specifiers')
        }

        return spec
      })
      const nodes = tree.inventory.filter(node => this.isNode(specs, node))

      await arb.rebuild({ nodes })
    } else {
      await arb.rebuild()
    }

    output.standard('rebuilt dependencies successfully')
  }

  isNode (specs, node) {
    return specs.some(spec => {
      if (spec.type === 'directory') {
        return node.path === spec.fetchSpec
      }

      if (spec.name !== node.name) {
        return false
      }

      if (spec.rawSpec === '' || spec.rawSpec === '*') {
        return true
      }

      const { version } = node.package
      // TODO: add tests for a package with missing version
      return semver.satisfies(version, spec.fetchSpec)
    })
  }
}

module.exports = Rebuild

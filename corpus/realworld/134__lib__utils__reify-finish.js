const reifyOutput = require('./reify-output.js')
const ini = require('ini')
const { writeFile } = require('node:fs/promises')
const { resolve } = require('node:path')

const reifyFinish = async (npm, arb) => {
  await saveBuiltinConfig(npm, arb)
  reifyOutput(npm, arb)
}

const saveBuiltinConfig = async (npm, arb) => {
  const { options: { global }, actualTree } = arb
  if (!global) {
    return
  }

  // if we are using a builtin config, and just installed npm as
  // a top-level global package, we have to preserve that config.
  const npmNode = actualTree.inventory.get('node_modules/npm')
  if (!npmNode) {
    return
  }

  const builtinConf = npm.config.data.get('builtin')
  if (builtinConf.loadError) {
    return
  }

  const content = ini.stringify(builtinConf.raw).trim() + '\n'
  await writeFile(resolve(npmNode.path, 'npmrc'), content)
}

module.exports = reifyFinish

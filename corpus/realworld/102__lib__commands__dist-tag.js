const npa = require('npm-package-arg')
const regFetch = require('npm-registry-fetch')
const semver = require('semver')
const { log, output } = require('proc-log')
const { otplease } = require('../utils/auth.js')
const pkgJson = require('@npmcli/package-json')
const BaseCommand = require('../base-cmd.js')

class DistTag extends BaseCommand {
  static description = 'Modify package distribution tags'
  static params = ['workspace', 'workspaces', 'include-workspace-root']
  static name = 'dist-tag'
  static usage = [
    'add <package-spec (with version)> [<tag>]',
    'rm <package-spec> <tag>',
    'ls [<package-spec>]',
  ]

  static workspaces = true
  static ignoreImplicitWorkspace = false

  static async completion (opts) {
    const argv = opts.conf.argv.remain
    if (argv.length === 2) {
      return ['add', 'rm', 'ls']
    }

    switch (argv[2]) {
      default:
        return []
    }
  }

  async exec ([cmdName, pkg, tag]) {
    const opts = {
      ...this.npm.flatOptions,
    }

    if (['add', 'a', 'set', 's'].includes(cmdName)) {
      return this.add(pkg, tag, opts)
    }

    if (['rm', 'r', 'del', 'd', 'remove'].includes(cmdName)) {
      return this.remove(pkg, tag, opts)
    }

    if (['ls', 'l', 'sl', 'list'].includes(cmdName)) {
      return this.list(pkg, opts)
    }

    if (!pkg) {
      // when only using the pkg name the default behavior
      // should be listing the existing tags
      return this.list(cmdName, opts)
    } else {
      throw this.usageError()
    }
  }

  async execWorkspaces ([cmdName, pkg, tag]) {
    // cmdName is some form of list
    // pkg is one of:
    // - unset
    // - .
    // - .@version
    if (['ls', 'l', 'sl', 'list'].includes(cmdName) && (!pkg || pkg === '.' || /^\.@/.test(pkg))) {
      return this.listWorkspaces()
    }

    // pkg is unset
    // cmdName is one of:
    // - unset
    // - .
    // - .@version
    if (!pkg && (!cmdName || cmdName === '.' || /^\.@/.test(cmdName))) {
      return this.listWorkspaces()
    }

    // anything else is just a regular dist-tag command
    // so we fallback to the non-workspaces implementation
    log.warn('dist-tag', 'Ignoring workspaces for specified package')
    return this.exec([cmdName, pkg, tag])
  }

  async add (spec, tag, opts) {
    spec = npa(spec || '')
    const version = spec.rawSpec
    const defaultTag = tag || this.npm.config.get('tag')

    log.verbose('dist-tag add', defaultTag, 'to', spec.name + '@' + version)

    // make sure new spec with tag is valid, this will throw if invalid
    npa(`${spec.name}@${defaultTag}`)

    if (!spec.name || !version || !defaultTag) {
      throw this.usageError('must provide a spec with a name and version, and a tag to add')
    }

    const t = defaultTag.trim()

    if (semver.validRange(t)) {
      throw new Error('Tag name must not be a valid SemVer range: ' + t)
    }

    const tags = await this.fetchTags(spec, opts)
    if (tags[t] === version) {
      log.warn('dist-tag add', t, 'is already set to version', version)
      return
    }
    tags[t] = version
    const url =
      `/-/package/${spec.escapedName}/dist-tags/${encodeURIComponent(t)}`
    const reqOpts = {
      ...opts,
      method: 'PUT',
      body: JSON.stringify(version),
      headers: {
        'content-type': 'application/json',
      },
      spec,
    }
    await otplease(this.npm, reqOpts, o => regFetch(url, o))
    output.standard(`+${t}: ${spec.name}@${version}`)
  }

  async remove (spec, tag, opts) {
    spec = npa(spec || '')
    log.verbose('dist-tag del', tag, 'from', spec.name)

    if (!spec.name) {
      throw this.usageError()
    }

    const tags = await this.fetchTags(spec, opts)
    if (!tags[tag]) {
      log.info('dist-tag del', tag, 'is not a dist-tag on', spec.name)
      throw new Error(tag + ' is not a dist-tag on ' + spec.name)
    }
    const version = tags[tag]
    delete tags[tag]
    const url =
      `/-/package/${spec.escapedName}/dist-tags/${encodeURIComponent(tag)}`
    const reqOpts = {
      ...opts,
      method: 'DELETE',
      spec,
    }
    await otplease(this.npm, reqOpts, o => regFetch(url, o))
    output.standard(`-${tag}: ${spec.name}@${version}`)
  }

  async list (spec, opts) {
    if (!spec) {
      if (this.npm.global) {
        throw this.usageError()
      }
      const { content: { name } } = await pkgJson.normalize(this.npm.prefix)
      if (!name) {
        throw this.usageError()
      }

      return this.list(name, opts)
    }
    spec = npa(spec)

    try {
      const tags = await this.fetchTags(spec, opts)
      const msg =
        Object.keys(tags).map(k => `${k}: ${tags[k]}`).sort().join('\n')
      output.standard(msg)
      return tags
    } catch (err) {
      log.error('dist-tag ls', "Couldn't get dist-tag data for", spec)
      throw err
    }
  }

  async listWorkspaces () {
    await this.setWorkspaces()

    for (const name of this.workspaceNames) {
      try {
        output.standard(`${name}:`)
        await this.list(npa(name), this.npm.flatOptions)
      } catch (err) {
        // set the exitCode directly, but ignore the error
        // since it will have already been logged by this.list()
        process.exitCode = 1
      }
    }
  }

  async fetchTags (spec, opts) {
    const data = await regFetch.json(
      `/-/package/${spec.escapedName}/dist-tags`,
      { ...opts, 'prefer-online': true, spec }
    )
    if (data && typeof data === 'object') {
      delete data._etag
    }
    if (!data || !Object.keys(data).length) {
      throw new Error('No dist-tags found for ' + spec.name)
    }

    return data
  }
}

module.exports = DistTag

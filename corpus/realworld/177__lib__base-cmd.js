const { log } = require('proc-log')

class BaseCommand {
  static workspaces = false
  static ignoreImplicitWorkspace = true

  // these are all overridden by individual commands
  static name = null
  static description = null
  static params = null

  // this is a static so that we can read from it without instantiating a command
  // which would require loading the config
  static get describeUsage () {
    const { definitions } = require('@npmcli/config/lib/definitions')
    const { aliases: cmdAliases } = require('./utils/cmd-list')
    const seenExclusive = new Set()
    const wrapWidth = 80
    const { description, usage = [''], name, params } = this

    const fullUsage = [
      `${description}`,
      '',
      'Usage:',
      ...usage.map(u => `npm ${name} ${u}`.trim()),
    ]

    if (params) {
      let results = ''
      let line = ''
      for (const param of params) {
        /* istanbul ignore next */
        if (seenExclusive.has(param)) {
          continue
        }
        const { exclusive } = definitions[param]
        let paramUsage = `${definitions[param].usage}`
        if (exclusive) {
          const exclusiveParams = [paramUsage]
          seenExclusive.add(param)
          for (const e of exclusive) {
            seenExclusive.add(e)
            exclusiveParams.push(definitions[e].usage)
          }
          paramUsage = `${exclusiveParams.join('|')}`
        }
        paramUsage = `[${paramUsage}]`
        if (line.length + paramUsage.length > wrapWidth) {
          results = [results, line].filter(Boolean).join('\n')
          line = ''
        }
        line = [line, paramUsage].filter(Boolean).join(' ')
      }
      fullUsage.push('')
      fullUsage.push('Options:')
      fullUsage.push([results, line].filter(Boolean).join('\n'))
    }

    const aliases = Object.entries(cmdAliases).reduce((p, [k, v]) => {
      return p.concat(v === name ? k : [])
    }, [])

    if (aliases.length) {
      const plural = aliases.length === 1 ? '' : 'es'
      fullUsage.push('')
      fullUsage.push(`alias${plural}: ${aliases.join(', ')}`)
    }

    fullUsage.push('')
    fullUsage.push(`Run "npm help ${name}" for more info`)

    return fullUsage.join('\n')
  }

  constructor (npm) {
    this.npm = npm

    const { config } = this.npm

    if (!this.constructor.skipConfigValidation) {
      config.validate()
    }

    if (config.get('workspaces') === false && config.get('workspace').length) {
      throw new Error('Can not use --no-workspaces and --workspace at the same time')
    }
  }

  get name () {
    return this.constructor.name
  }

  get description () {
    return this.constructor.description
  }

  get params () {
    return this.constructor.params
  }

  get usage () {
    return this.constructor.describeUsage
  }

  usageError (prefix = '') {
    if (prefix) {
      prefix += '\n\n'
    }
    return Object.assign(new Error(`\n${prefix}${this.usage}`), {
      code: 'EUSAGE',
    })
  }

  // Compare the number of entries with what was expected
  checkExpected (entries) {
    if (!this.npm.config.isDefault('expect-results')) {
      const expected = this.npm.config.get('expect-results')
      if (!!entries !== !!expected) {
        log.warn(this.name, `Expected ${expected ? '' : 'no '}results, got ${entries}`)
        process.exitCode = 1
      }
    } else if (!this.npm.config.isDefault('expect-result-count')) {
      const expected = this.npm.config.get('expect-result-count')
      if (expected !== entries) {
        /* eslint-disable-next-line max-len */
        log.warn(this.name, `Expected ${expected} result${expected === 1 ? '' : 's'}, got ${entries}`)
        process.exitCode = 1
      }
    }
  }

  async setWorkspaces () {
    const { relative } = require('node:path')

    const includeWorkspaceRoot = this.isArboristCmd
      ? false
      : this.npm.config.get('include-workspace-root')

    const prefixInsideCwd = relative(this.npm.localPrefix, process.cwd()).startsWith('..')
    const relativeFrom = prefixInsideCwd ? this.npm.localPrefix : process.cwd()

    const filters = this.npm.config.get('workspace')
    const getWorkspaces = require('./utils/get-workspaces.js')
    const ws = await getWorkspaces(filters, {
      path: this.npm.localPrefix,
      includeWorkspaceRoot,
      relativeFrom,
    })

    this.workspaces = ws
    this.workspaceNames = [...ws.keys()]
    this.workspacePaths = [...ws.values()]
  }
}

module.exports = BaseCommand

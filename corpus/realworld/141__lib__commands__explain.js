const { explainNode } = require('../utils/explain-dep.js')
const npa = require('npm-package-arg')
const semver = require('semver')
const { relative, resolve } = require('node:path')
const validName = require('validate-npm-package-name')
const { output } = require('proc-log')
const ArboristWorkspaceCmd = require('../arborist-cmd.js')

class Explain extends ArboristWorkspaceCmd {
  static description = 'Explain installed packages'
  static name = 'explain'
  static usage = ['<package-spec>']
  static params = [
    'json',
    'workspace',
  ]

  static ignoreImplicitWorkspace = false

  // TODO
  /* istanbul ignore next */
  static async completion (opts, npm) {
    const completion = require('../utils/installed-deep.js')
    return completion(npm, opts)
  }

  async exec (args) {
    if (!args.length) {
      throw this.usageError()
    }

    const Arborist = require('@npmcli/arborist')
    const arb = new Arborist({ path: this.npm.prefix, ...this.npm.flatOptions })
    const tree = await arb.loadActual()

    if (this.npm.flatOptions.workspacesEnabled
      && this.workspaceNames
      && this.workspaceNames.length
    ) {
      this.filterSet = arb.workspaceDependencySet(tree, this.workspaceNames)
    } else if (!this.npm.flatOptions.workspacesEnabled) {
      this.filterSet =
        arb.excludeWorkspacesDependencySet(tree)
    }

    const nodes = new Set()
    for (const arg of args) {
      for (const node of this.getNodes(tree, arg)) {
        const filteredOut = this.filterSet
          && this.filterSet.size > 0
          && !this.filterSet.has(node)
        if (!filteredOut) {
          nodes.add(node)
        }
      }
    }
    if (nodes.size === 0) {
      throw new Error(`No dependencies found matching ${args.join(', ')}`)
    }

    const expls = []
    for (const node of nodes) {
      const { extraneous, dev, optional, devOptional, peer, inBundle, overridden } = node
      const expl = node.explain()
      if (extraneous) {
        expl.extraneous = true
      } else {
        expl.dev = dev
        expl.optional = optional
        expl.devOptional = devOptional
        expl.peer = peer
        expl.bundled = inBundle
        expl.overridden = overridden
      }
      expls.push(expl)
    }

    if (this.npm.flatOptions.json) {
      output.buffer(expls)
    } else {
      output.standard(expls.map(expl => {
        return explainNode(expl, Infinity, this.npm.chalk)
      }).join('\n\n'))
    }
  }

  getNodes (tree, arg) {
    // if it's just a name, return packages by that name
    const { validForOldPackages: valid } = validName(arg)
    if (valid) {
      return tree.inventory.query('packageName', arg)
    }

    // if it's a location, get that node
    const maybeLoc = arg.replace(/\\/g, '/').replace(/\/+$/, '')
    const nodeByLoc = tree.inventory.get(maybeLoc)
    if (nodeByLoc) {
      return [nodeByLoc]
    }

    // maybe a path to a node_modules folder
    const maybePath = relative(this.npm.prefix, resolve(maybeLoc))
      .replace(/\\/g, '/').replace(/\/+$/, '')
    const nodeByPath = tree.inventory.get(maybePath)
    if (nodeByPath) {
      return [nodeByPath]
    }

    // otherwise, try to select all matching nodes
    try {
      return this.getNodesByVersion(tree, arg)
    } catch (er) {
      return []
    }
  }

  getNodesByVersion (tree, arg) {
    const spec = npa(arg, this.npm.prefix)
    if (spec.type !== 'version' && spec.type !== 'range') {
      return []
    }

    return tree.inventory.filter(node => {
      return node.package.name === spec.name &&
        semver.satisfies(node.package.version, spec.rawSpec)
    })
  }
}

module.exports = Explain

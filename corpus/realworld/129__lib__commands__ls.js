const { resolve, relative, sep } = require('node:path')
const archy = require('archy')
const { breadth } = require('treeverse')
const npa = require('npm-package-arg')
const { output } = require('proc-log')
const ArboristWorkspaceCmd = require('../arborist-cmd.js')
const localeCompare = require('@isaacs/string-locale-compare')('en')

const relativePrefix = `.${sep}`

const _depth = Symbol('depth')
const _dedupe = Symbol('dedupe')
const _filteredBy = Symbol('filteredBy')
const _include = Symbol('include')
const _invalid = Symbol('invalid')
const _name = Symbol('name')
const _missing = Symbol('missing')
const _parent = Symbol('parent')
const _problems = Symbol('problems')
const _required = Symbol('required')
const _type = Symbol('type')

class LS extends ArboristWorkspaceCmd {
  static description = 'List installed packages'
  static name = 'ls'
  static usage = ['<package-spec>']
  static params = [
    'all',
    'json',
    'long',
    'parseable',
    'global',
    'depth',
    'omit',
    'include',
    'link',
    'package-lock-only',
    'unicode',
    ...super.params,
  ]

  // TODO
  /* istanbul ignore next */
  static async completion (opts, npm) {
    const completion = require('../utils/installed-deep.js')
    return completion(npm, opts)
  }

  async exec (args) {
    const all = this.npm.config.get('all')
    const chalk = this.npm.chalk
    const depth = this.npm.config.get('depth')
    const global = this.npm.global
    const json = this.npm.config.get('json')
    const link = this.npm.config.get('link')
    const long = this.npm.config.get('long')
    const omit = this.npm.flatOptions.omit
    const parseable = this.npm.config.get('parseable')
    const unicode = this.npm.config.get('unicode')
    const packageLockOnly = this.npm.config.get('package-lock-only')
    const workspacesEnabled = this.npm.flatOptions.workspacesEnabled

    const path = global ? resolve(this.npm.globalDir, '..') : this.npm.prefix

    const Arborist = require('@npmcli/arborist')

    const arb = new Arborist({
      global,
      ...this.npm.flatOptions,
      legacyPeerDeps: false,
      path,
    })
    const tree = await this.initTree({ arb, args, packageLockOnly })

    // filters by workspaces nodes when using -w <workspace-name>
    // We only have to filter the first layer of edges, so we don't
    // explore anything that isn't part of the selected workspace set.
    let wsNodes
    if (this.workspaceNames && this.workspaceNames.length) {
      wsNodes = arb.workspaceNodes(tree, this.workspaceNames)
    }
    const filterBySelectedWorkspaces = edge => {
      if (!workspacesEnabled
        && edge.from.isProjectRoot
        && edge.to.isWorkspace
      ) {
        return false
      }

      if (!wsNodes || !wsNodes.length) {
        return true
      }

      if (this.npm.flatOptions.includeWorkspaceRoot
          && edge.to && !edge.to.isWorkspace) {
        return true
      }

      if (edge.from.isProjectRoot) {
        return (edge.to
          && edge.to.isWorkspace
          && wsNodes.includes(edge.to.target))
      }

      return true
    }

    const seenItems = new Set()
    const seenNodes = new Map()
    const problems = new Set()

    // defines special handling of printed depth when filtering with args
    const filterDefaultDepth = depth === null ? Infinity : depth
    const depthToPrint = (all || args.length)
      ? filterDefaultDepth
      : (depth || 0)

    // add root node of tree to list of seenNodes
    seenNodes.set(tree.path, tree)

    // tree traversal happens here, using treeverse.breadth
    const result = await breadth({
      tree,
      // recursive method, `node` is going to be the current elem (starting from
      // the `tree` obj) that was just visited in the `visit` method below
      // `nodeResult` is going to be the returned `item` from `visit`
      getChildren (node, nodeResult) {
        const seenPaths = new Set()
        const workspace = node.isWorkspace
        const currentDepth = workspace ? 0 : node[_depth]
        const shouldSkipChildren =
          !(node instanceof Arborist.Node) || (currentDepth > depthToPrint)
        return (shouldSkipChildren)
          ? []
          : [...(node.target).edgesOut.values()]
            .filter(filterBySelectedWorkspaces)
            .filter(currentDepth === 0 ? filterByEdgesTypes({
              link,
              omit,
            }) : () => true)
            .map(mapEdgesToNodes({ seenPaths }))
            .concat(appendExtraneousChildren({ node, seenPaths }))
            .sort(sortAlphabetically)
            .map(augmentNodesWithMetadata({
              args,
              currentDepth,
              nodeResult,
              seenNodes,
            }))
      },
      // visit each `node` of the `tree`, returning an `item` - these are
      // the elements that will be used to build the final output
      visit (node) {
        node[_problems] = getProblems(node, { global })

        const item = json
          ? getJsonOutputItem(node, { global, long })
          : parseable
            ? null
            : getHumanOutputItem(node, { args, chalk, global, long })

        // loop through list of node problems to add them to global list
        if (node[_include]) {
          for (const problem of node[_problems]) {
            problems.add(problem)
          }
        }

        seenItems.add(item)

        // return a promise so we don't blow the stack
        return Promise.resolve(item)
      },
    })

    // handle the special case of a broken package.json in the root folder
    const [rootError] = tree.errors.filter(e =>
      e.code === 'EJSONPARSE' && e.path === resolve(path, 'package.json'))

    if (json) {
      output.buffer(jsonOutput({ path, problems, result, rootError, seenItems }))
    } else {
      output.standard(parseable
        ? parseableOutput({ seenNodes, global, long })
        : humanOutput({ chalk, result, seenItems, unicode })
      )
    }

    // if filtering items, should exit with error code on no results
    if (result && !result[_include] && args.length) {
      process.exitCode = 1
    }

    if (rootError) {
      throw Object.assign(
        new Error('Failed to parse root package.json'),
        { code: 'EJSONPARSE' }
      )
    }

    const shouldThrow = problems.size &&
      ![...problems].every(problem => problem.startsWith('extraneous:'))

    if (shouldThrow) {
      throw Object.assign(
        new Error([...problems].join('\n')),
        { code: 'ELSPROBLEMS' }
      )
    }
  }

  async initTree ({ arb, args, packageLockOnly }) {
    const tree = await (
      packageLockOnly
        ? arb.loadVirtual()
        : arb.loadActual()
    )

    tree[_include] = args.length === 0
    tree[_depth] = 0

    return tree
  }
}

module.exports = LS

const isGitNode = (node) => {
  if (!node.resolved) {
    return
  }

  try {
    const { type } = npa(node.resolved)
    return type === 'git' || type === 'hosted'
  } catch (err) {
    return false
  }
}

const isOptional = (node) =>
  node[_type] === 'optional' || node[_type] === 'peerOptional'

const isExtraneous = (node, { global }) =>
  node.extraneous && !global

const getProblems = (node, { global }) => {
  const problems = new Set()

  if (node[_missing] && !isOptional(node)) {
    problems.add(`missing: ${node.pkgid}, required by ${node[_missing]}`)
  }

  if (node[_invalid]) {
    problems.add(`invalid: ${node.pkgid} ${node.path}`)
  }

  if (isExtraneous(node, { global })) {
    problems.add(`extraneous: ${node.pkgid} ${node.path}`)
  }

  return problems
}

// annotates _parent and _include metadata into the resulting
// item obj allowing for filtering out results during output
const augmentItemWithIncludeMetadata = (node, item) => {
  item[_parent] = node[_parent]
  item[_include] = node[_include]

  // append current item to its parent.nodes which is the
  // structure expected by archy in order to print tree
  if (node[_include]) {
    // includes all ancestors of included node
    let p = node[_parent]
    while (p) {
      p[_include] = true
      p = p[_parent]
    }
  }

  return item
}

const getHumanOutputItem = (node, { args, chalk, global, long }) => {
  const { pkgid, path } = node
  const workspacePkgId = chalk.blueBright(pkgid)
  let printable = node.isWorkspace ? workspacePkgId : pkgid

  // special formatting for top-level package name
  if (node.isRoot) {
    const hasNoPackageJson = !Object.keys(node.package).length
    if (hasNoPackageJson || global) {
      printable = path
    } else {
      printable += `${long ? '\n' : ' '}${path}`
    }
  }

  // TODO there is a LOT of overlap with lib/utils/explain-dep.js here

  const highlightDepName = args.length && node[_filteredBy]
  const missingColor = isOptional(node)
    ? chalk.yellow
    : chalk.red
  const missingMsg = `UNMET ${isOptional(node) ? 'OPTIONAL ' : ''}DEPENDENCY`
  const targetLocation = node.root
    ? relative(node.root.realpath, node.realpath)
    : node.targetLocation
  const invalid = node[_invalid]
    ? `invalid: ${node[_invalid]}`
    : ''
  const label =
    (
      node[_missing]
        ? missingColor(missingMsg) + ' '
        : ''
    ) +
    `${highlightDepName ? chalk.yellow(printable) : printable}` +
    (
      node[_dedupe]
        ? ' ' + chalk.dim('deduped')
        : ''
    ) +
    (
      invalid
        ? ' ' + chalk.red(invalid)
        : ''
    ) +
    (
      isExtraneous(node, { global })
        ? ' ' + chalk.red('extraneous')
        : ''
    ) +
    (
      node.overridden
        ? ' ' + chalk.dim('overridden')
        : ''
    ) +
    (isGitNode(node) ? ` (${node.resolved})` : '') +
    (node.isLink ? ` -> ${relativePrefix}${targetLocation}` : '') +
    (long ? `\n${node.package.description || ''}` : '')

  return augmentItemWithIncludeMetadata(node, { label, nodes: [] })
}

const getJsonOutputItem = (node, { global, long }) => {
  const item = {}

  if (node.version) {
    item.version = node.version
  }

  if (node.resolved) {
    item.resolved = node.resolved
  }

  // if the node is the project root, do not add the overridden flag. the project root can't be
  // overridden anyway, and if we add the flag it causes undesirable behavior when `npm ls --json`
  // is ran in an empty directory since we end up printing an object with only an overridden prop
  if (!node.isProjectRoot) {
    item.overridden = node.overridden
  }

  item[_name] = node.name

  // special formatting for top-level package name
  const hasPackageJson =
    node && node.package && Object.keys(node.package).length
  if (node.isRoot && hasPackageJson) {
    item.name = node.package.name || node.name
  }

  if (long && !node[_missing]) {
    item.name = item[_name]
    const { dependencies, ...packageInfo } = node.package
    Object.assign(item, packageInfo)
    item.extraneous = false
    item.path = node.path
    item._dependencies = {
      ...node.package.dependencies,
      ...node.package.optionalDependencies,
    }
    item.devDependencies = node.package.devDependencies || {}
    item.peerDependencies = node.package.peerDependencies || {}
  }

  // augment json output items with extra metadata
  if (isExtraneous(node, { global })) {
    item.extraneous = true
  }

  if (node[_invalid]) {
    item.invalid = node[_invalid]
  }

  if (node[_missing] && !isOptional(node)) {
    item.required = node[_required]
    item.missing = true
  }
  if (node[_include] && node[_problems] && node[_problems].size) {
    item.problems = [...node[_problems]]
  }

  return augmentItemWithIncludeMetadata(node, item)
}

const filterByEdgesTypes = ({ link, omit }) => (edge) => {
  for (const omitType of omit) {
    if (edge[omitType]) {
      return false
    }
  }
  return link ? edge.to && edge.to.isLink : true
}

const appendExtraneousChildren = ({ node, seenPaths }) =>
  // extraneous children are not represented
  // in edges out, so here we add them to the list:
  [...node.children.values()]
    .filter(i => !seenPaths.has(i.path) && i.extraneous)

const mapEdgesToNodes = ({ seenPaths }) => (edge) => {
  let node = edge.to

  // if the edge is linking to a missing node, we go ahead
  // and create a new obj that will represent the missing node
  if (edge.missing || (edge.optional && !node)) {
    const { name, spec } = edge
    const pkgid = `${name}@${spec}`
    node = { name, pkgid, [_missing]: edge.from.pkgid }
  }

  // keeps track of a set of seen paths to avoid the edge case in which a tree
  // item would appear twice given that it's a children of an extraneous item,
  // so it's marked extraneous but it will ALSO show up in edgesOuts of
  // its parent so it ends up as two diff nodes if we don't track it
  if (node.path) {
    seenPaths.add(node.path)
  }

  node[_required] = edge.spec || '*'
  node[_type] = edge.type

  if (edge.invalid) {
    const spec = JSON.stringify(node[_required])
    const from = edge.from.location || 'the root project'
    node[_invalid] = (node[_invalid] ? node[_invalid] + ', ' : '') +
      (`${spec} from ${from}`)
  }

  return node
}

const filterByPositionalArgs = (args, { node }) =>
  args.length > 0 ? args.some(
    (spec) => (node.satisfies && node.satisfies(spec))
  ) : true

const augmentNodesWithMetadata = ({
  args,
  currentDepth,
  nodeResult,
  seenNodes,
}) => (node) => {
  // if the original edge was a deduped dep, treeverse will fail to
  // revisit that node in tree traversal logic, so we make it so that
  // we have a diff obj for deduped nodes:
  if (seenNodes.has(node.path)) {
    const { realpath, root } = node
    const targetLocation = root ? relative(root.realpath, realpath)
      : node.targetLocation
    node = {
      name: node.name,
      version: node.version,
      pkgid: node.pkgid,
      package: node.package,
      path: node.path,
      isLink: node.isLink,
      realpath: node.realpath,
      targetLocation,
      [_type]: node[_type],
      [_invalid]: node[_invalid],
      [_missing]: node[_missing],
      // if it's missing, it's not deduped, it's just missing
      [_dedupe]: !node[_missing],
    }
  } else {
    // keeps track of already seen nodes in order to check for dedupes
    seenNodes.set(node.path, node)
  }

  // _parent is going to be a ref to a treeverse-visited node (returned from
  // getHumanOutputItem, getJsonOutputItem, etc) so that we have an easy
  // shortcut to place new nodes in their right place during tree traversal
  node[_parent] = nodeResult
  // _include is the property that allow us to filter based on position args
  // e.g: `npm ls foo`, `npm ls simple-output@2`
  // _filteredBy is used to apply extra color info to the item that
  // was used in args in order to filter
  node[_filteredBy] = node[_include] =
    filterByPositionalArgs(args, { node: seenNodes.get(node.path) })
  // _depth keeps track of how many levels deep tree traversal currently is
  // so that we can `npm ls --depth=1`
  node[_depth] = currentDepth + 1

  return node
}

const sortAlphabetically = ({ pkgid: a }, { pkgid: b }) => localeCompare(a, b)

const humanOutput = ({ chalk, result, seenItems, unicode }) => {
  // we need to traverse the entire tree in order to determine which items
  // should be included (since a nested transitive included dep will make it
  // so that all its ancestors should be displayed)
  // here is where we put items in their expected place for archy output
  for (const item of seenItems) {
    if (item[_include] && item[_parent]) {
      item[_parent].nodes.push(item)
    }
  }

  if (!result.nodes.length) {
    result.nodes = ['(empty)']
  }

  const archyOutput = archy(result, '', { unicode })
  return chalk.reset(archyOutput)
}

const jsonOutput = ({ path, problems, result, rootError, seenItems }) => {
  if (problems.size) {
    result.problems = [...problems]
  }

  if (rootError) {
    result.problems = [
      ...(result.problems || []),
      ...[`error in ${path}: Failed to parse root package.json`],
    ]
    result.invalid = true
  }

  // we need to traverse the entire tree in order to determine which items
  // should be included (since a nested transitive included dep will make it
  // so that all its ancestors should be displayed)
  // here is where we put items in their expected place for json output
  for (const item of seenItems) {
    // append current item to its parent item.dependencies obj in order
    // to provide a json object structure that represents the installed tree
    if (item[_include] && item[_parent]) {
      if (!item[_parent].dependencies) {
        item[_parent].dependencies = {}
      }

      item[_parent].dependencies[item[_name]] = item
    }
  }

  return result
}

const parseableOutput = ({ global, long, seenNodes }) => {
  let out = ''
  for (const node of seenNodes.values()) {
    if (node.path && node[_include]) {
      out += node.path
      if (long) {
        out += `:${node.pkgid}`
        out += node.path !== node.realpath ? `:${node.realpath}` : ''
        out += isExtraneous(node, { global }) ? ':EXTRANEOUS' : ''
        out += node[_invalid] ? ':INVALID' : ''
        out += node.overridden ? ':OVERRIDDEN' : ''
      }
      out += '\n'
    }
  }
  return out.trim()
}

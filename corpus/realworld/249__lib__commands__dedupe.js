const reifyFinish = require('../utils/reify-finish.js')
const ArboristWorkspaceCmd = require('../arborist-cmd.js')

// dedupe duplicated packages, or find them in the tree
class Dedupe extends ArboristWorkspaceCmd {
  static description = 'Reduce duplication in the package tree'
  static name = 'dedupe'
  static params = [
    'install-strategy',
    'legacy-bundling',
    'global-style',
    'strict-peer-deps',
    'package-lock',
    'omit',
    'include',
    'ignore-scripts',
    'audit',
    'bin-links',
    'fund',
    'dry-run',
    ...super.params,
  ]

  async exec () {
    if (this.npm.global) {
      const er = new Error('`npm dedupe` does not work in global mode.')
      er.code = 'EDEDUPEGLOBAL'
      throw er
    }

    const dryRun = this.npm.config.get('dry-run')
    const where = this.npm.prefix
    const Arborist = require('@npmcli/arborist')
    const opts = {
      ...this.npm.flatOptions,
      path: where,
      dryRun,
      // Saving during dedupe would only update if one of your direct
      // dependencies was also duplicated somewhere in your tree. It would be
      // confusing if running this were to also update your package.json.  In
      // order to reduce potential confusion we set this to false.
      save: false,
      workspaces: this.workspaceNames,
    }
    const arb = new Arborist(opts)
    await arb.dedupe(opts)
    await reifyFinish(this.npm, arb)
  }
}

module.exports = Dedupe

const localeCompare = require('@isaacs/string-locale-compare')('en')
const BaseCommand = require('../base-cmd.js')
const { log, output } = require('proc-log')
const { cyclonedxOutput } = require('../utils/sbom-cyclonedx.js')
const { spdxOutput } = require('../utils/sbom-spdx.js')

const SBOM_FORMATS = ['cyclonedx', 'spdx']

class SBOM extends BaseCommand {
  #response = {} // response is the sbom response

  static description = 'Generate a Software Bill of Materials (SBOM)'
  static name = 'sbom'
  static workspaces = true

  static params = [
    'omit',
    'package-lock-only',
    'sbom-format',
    'sbom-type',
    'workspace',
    'workspaces',
  ]

  async exec () {
    const sbomFormat = this.npm.config.get('sbom-format')
    const packageLockOnly = this.npm.config.get('package-lock-only')

    if (!sbomFormat) {
      /* eslint-disable-next-line max-len */
      throw this.usageError(`Must specify --sbom-format flag with one of: ${SBOM_FORMATS.join(', ')}.`)
    }

    const opts = {
      ...this.npm.flatOptions,
      path: this.npm.prefix,
      forceActual: true,
    }
    const Arborist = require('@npmcli/arborist')
    const arb = new Arborist(opts)

    const tree = packageLockOnly ? await arb.loadVirtual(opts).catch(() => {
      /* eslint-disable-next-line max-len */
      throw this.usageError('A package lock or shrinkwrap file is required in package-lock-only mode')
    }) : await arb.loadActual(opts)

    // Collect the list of selected workspaces in the project
    const wsNodes = this.workspaceNames?.length
      ? arb.workspaceNodes(tree, this.workspaceNames)
      : null

    // Build the selector and query the tree for the list of nodes
    const selector = this.#buildSelector({ wsNodes })
    log.info('sbom', `Using dependency selector: ${selector}`)
    const items = await tree.querySelectorAll(selector)

    const errors = items.flatMap(node => detectErrors(node))
    if (errors.length) {
      throw Object.assign(new Error([...new Set(errors)].join('\n')), {
        code: 'ESBOMPROBLEMS',
      })
    }

    // Populate the response with the list of unique nodes (sorted by location)
    this.#buildResponse(items.sort((a, b) => localeCompare(a.location, b.location)))

    // TODO(BREAKING_CHANGE): all sbom output is in json mode but setting it before
    // any of the errors will cause those to be thrown in json mode.
    this.npm.config.set('json', true)
    output.buffer(this.#response)
  }

  async execWorkspaces (args) {
    await this.setWorkspaces()
    return this.exec(args)
  }

  // Build the selector from all of the specified filter options
  #buildSelector ({ wsNodes }) {
    let selector
    const omit = this.npm.flatOptions.omit
    const workspacesEnabled = this.npm.flatOptions.workspacesEnabled

    // If omit is specified, omit all nodes and their children which match the
    // specified selectors
    const omits = omit.reduce((acc, o) => `${acc}:not(.${o})`, '')

    if (!workspacesEnabled) {
      // If workspaces are disabled, omit all workspace nodes and their children
      selector = `:root > :not(.workspace)${omits},:root > :not(.workspace) *${omits},:extraneous`
    } else if (wsNodes && wsNodes.length > 0) {
      // If one or more workspaces are selected, select only those workspaces and their children
      selector = wsNodes.map(ws => `#${ws.name},#${ws.name} *${omits}`).join(',')
    } else {
      selector = `:root *${omits},:extraneous`
    }

    // Always include the root node
    return `:root,${selector}`
  }

  // builds a normalized inventory
  #buildResponse (items) {
    const sbomFormat = this.npm.config.get('sbom-format')
    const packageType = this.npm.config.get('sbom-type')
    const packageLockOnly = this.npm.config.get('package-lock-only')

    this.#response = sbomFormat === 'cyclonedx'
      ? cyclonedxOutput({ npm: this.npm, nodes: items, packageType, packageLockOnly })
      : spdxOutput({ npm: this.npm, nodes: items, packageType })
  }
}

const detectErrors = (node) => {
  const errors = []

  // Look for missing dependencies (that are NOT optional), or invalid dependencies
  for (const edge of node.edgesOut.values()) {
    if (edge.missing && !(edge.type === 'optional' || edge.type === 'peerOptional')) {
      errors.push(`missing: ${edge.name}@${edge.spec}, required by ${edge.from.pkgid}`)
    }

    if (edge.invalid) {
      /* istanbul ignore next */
      const spec = edge.spec || '*'
      const from = edge.from.pkgid
      errors.push(`invalid: ${edge.to.pkgid}, ${spec} required by ${from}`)
    }
  }

  return errors
}

module.exports = SBOM

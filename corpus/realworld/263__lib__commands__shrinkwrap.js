const { resolve, basename } = require('node:path')
const { unlink } = require('node:fs/promises')
const { log } = require('proc-log')
const BaseCommand = require('../base-cmd.js')

class Shrinkwrap extends BaseCommand {
  static description = 'Lock down dependency versions for publication'
  static name = 'shrinkwrap'
  static ignoreImplicitWorkspace = false

  async exec () {
    // if has a npm-shrinkwrap.json, nothing to do
    // if has a package-lock.json, rename to npm-shrinkwrap.json
    // if has neither, load the actual tree and save that as npm-shrinkwrap.json
    //
    // loadVirtual, fall back to loadActual
    // rename shrinkwrap file type, and tree.meta.save()
    if (this.npm.global) {
      const er = new Error('`npm shrinkwrap` does not work for global packages')
      er.code = 'ESHRINKWRAPGLOBAL'
      throw er
    }

    const Arborist = require('@npmcli/arborist')
    const path = this.npm.prefix
    const sw = resolve(path, 'npm-shrinkwrap.json')
    const arb = new Arborist({ ...this.npm.flatOptions, path })
    const tree = await arb.loadVirtual().catch(() => arb.loadActual())
    const { meta } = tree
    const newFile = meta.hiddenLockfile || !meta.loadedFromDisk
    const oldFilename = meta.filename
    const notSW = !newFile && basename(oldFilename) !== 'npm-shrinkwrap.json'

    // The computed lockfile version of a hidden lockfile is always 3
    // even if the actual value of the property is a different.
    // When shrinkwrap is run with only a hidden lockfile we want to
    // set the shrinkwrap lockfile version as whatever was explicitly
    // requested with a fallback to the actual value from the hidden
    // lockfile.
    if (meta.hiddenLockfile) {
      meta.lockfileVersion = arb.options.lockfileVersion ||
        meta.originalLockfileVersion
    }
    meta.hiddenLockfile = false
    meta.filename = sw
    await meta.save()

    const updatedVersion = meta.originalLockfileVersion !== meta.lockfileVersion
      ? meta.lockfileVersion
      : null

    if (newFile) {
      let message = 'created a lockfile as npm-shrinkwrap.json'
      if (updatedVersion) {
        message += ` with version ${updatedVersion}`
      }
      log.notice('', message)
    } else if (notSW) {
      await unlink(oldFilename)
      let message = 'package-lock.json has been renamed to npm-shrinkwrap.json'
      if (updatedVersion) {
        message += ` and updated to version ${updatedVersion}`
      }
      log.notice('', message)
    } else if (updatedVersion) {
      log.notice('', `npm-shrinkwrap.json updated to version ${updatedVersion}`)
    } else {
      log.notice('', 'npm-shrinkwrap.json up to date')
    }
  }
}

module.exports = Shrinkwrap

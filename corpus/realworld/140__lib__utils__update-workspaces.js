'use strict'

const reifyFinish = require('../utils/reify-finish.js')

async function updateWorkspaces ({
  config,
  flatOptions,
  localPrefix,
  npm,
  workspaces,
}) {
  if (!flatOptions.workspacesUpdate || !workspaces.length) {
    return
  }

  // default behavior is to not save by default in order to avoid
  // race condition problems when publishing multiple workspaces
  // that have dependencies on one another, it might still be useful
  // in some cases, which then need to set --save
  const save = config.isDefault('save')
    ? false
    : config.get('save')

  // runs a minimalistic reify update, targeting only the workspaces
  // that had version updates and skipping fund/audit/save
  const opts = {
    ...flatOptions,
    audit: false,
    fund: false,
    path: localPrefix,
    save,
  }
  const Arborist = require('@npmcli/arborist')
  const arb = new Arborist(opts)

  await arb.reify({ ...opts, update: workspaces })
  await reifyFinish(npm, arb)
}

module.exports = updateWorkspaces

#!/usr/bin/env node

const cli = require('../lib/cli.js')

// run the resulting command as `npm exec ...args`
process.argv[1] = require.resolve('./npm-cli.js')
process.argv.splice(2, 0, 'exec')

// TODO: remove the affordances for removed items in npm v9
const removedSwitches = new Set([
  'always-spawn',
  'ignore-existing',
  'shell-auto-fallback',
])

const removedOpts = new Set([
  'npm',
  'node-arg',
  'n',
])

const removed = new Set([
  ...removedSwitches,
  ...removedOpts,
])

const { definitions, shorthands } = require('@npmcli/config/lib/definitions')
const npmSwitches = Object.entries(definitions)
  .filter(([, { type }]) => type === Boolean ||
    (Array.isArray(type) && type.includes(Boolean)))
  .map(([key]) => key)

// things that don't take a value
const switches = new Set([
  ...removedSwitches,
  ...npmSwitches,
  'no-install',
  'quiet',
  'q',
  'version',
  'v',
  'help',
  'h',
])

// things that do take a value
const opts = new Set([
  ...removedOpts,
  'package',
  'p',
  'cache',
  'userconfig',
  'call',
  'c',
  'shell',
  'npm',
  'node-arg',
  'n',
])

// break out of loop when we find a positional argument or --
// If we find a positional arg, we shove -- in front of it, and
// let the normal npm cli handle the rest.
let i
let sawRemovedFlags = false
for (i = 3; i < process.argv.length; i++) {
  const arg = process.argv[i]
  if (arg === '--') {
    break
  } else if (/^-/.test(arg)) {
    const [key, ...v] = arg.replace(/^-+/, '').split('=')

    switch (key) {
      case 'p':
        process.argv[i] = ['--package', ...v].join('=')
        break

      case 'shell':
        process.argv[i] = ['--script-shell', ...v].join('=')
        break

      case 'no-install':
        process.argv[i] = '--yes=false'
        break

      default:
        // resolve shorthands and run again
        if (shorthands[key] && !removed.has(key)) {
          const a = [...shorthands[key]]
          if (v.length) {
            a.push(v.join('='))
          }
          process.argv.splice(i, 1, ...a)
          i--
          continue
        }
        break
    }

    if (removed.has(key)) {
      // eslint-disable-next-line no-console
      console.error(`npx: the --${key} argument has been removed.`)
      sawRemovedFlags = true
      process.argv.splice(i, 1)
      i--
    }

    if (v.length === 0 && !switches.has(key) &&
        (opts.has(key) || !/^-/.test(process.argv[i + 1]))) {
      // value will be next argument, skip over it.
      if (removed.has(key)) {
        // also remove the value for the cut key.
        process.argv.splice(i + 1, 1)
      } else {
        i++
      }
    }
  } else {
    // found a positional arg, put -- in front of it, and we're done
    process.argv.splice(i, 0, '--')
    break
  }
}

if (sawRemovedFlags) {
  // eslint-disable-next-line no-console
  console.error('See `npm help exec` for more information')
}

cli(process)

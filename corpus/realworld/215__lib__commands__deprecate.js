const fetch = require('npm-registry-fetch')
const { otplease } = require('../utils/auth.js')
const npa = require('npm-package-arg')
const { log } = require('proc-log')
const semver = require('semver')
const getIdentity = require('../utils/get-identity.js')
const libaccess = require('libnpmaccess')
const BaseCommand = require('../base-cmd.js')

class Deprecate extends BaseCommand {
  static description = 'Deprecate a version of a package'
  static name = 'deprecate'
  static usage = ['<package-spec> <message>']
  static params = [
    'registry',
    'otp',
  ]

  static ignoreImplicitWorkspace = true

  static async completion (opts, npm) {
    if (opts.conf.argv.remain.length > 1) {
      return []
    }

    const username = await getIdentity(npm, npm.flatOptions)
    const packages = await libaccess.getPackages(username, npm.flatOptions)
    return Object.keys(packages)
      .filter((name) =>
        packages[name] === 'write' &&
        (opts.conf.argv.remain.length === 0 ||
          name.startsWith(opts.conf.argv.remain[0])))
  }

  async exec ([pkg, msg]) {
    // msg == null because '' is a valid value, it indicates undeprecate
    if (!pkg || msg == null) {
      throw this.usageError()
    }

    // fetch the data and make sure it exists.
    const p = npa(pkg)
    const spec = p.rawSpec === '*' ? '*' : p.fetchSpec

    if (semver.validRange(spec, true) === null) {
      throw new Error(`invalid version range: ${spec}`)
    }

    const uri = '/' + p.escapedName
    const packument = await fetch.json(uri, {
      ...this.npm.flatOptions,
      spec: p,
      query: { write: true },
    })

    const versions = Object.keys(packument.versions)
      .filter(v => semver.satisfies(v, spec, { includePrerelease: true }))

    if (versions.length) {
      for (const v of versions) {
        packument.versions[v].deprecated = msg
      }
      return otplease(this.npm, this.npm.flatOptions, opts => fetch(uri, {
        ...opts,
        spec: p,
        method: 'PUT',
        body: packument,
        ignoreBody: true,
      }))
    } else {
      log.warn('deprecate', 'No version found for', p.rawSpec)
    }
  }
}

module.exports = Deprecate

const BaseCommand = require('./base-cmd.js')

// The implementation of commands that are just "run a script"
// restart, start, stop, test
class LifecycleCmd extends BaseCommand {
  static usage = ['[-- <args>]']
  static isShellout = true
  static workspaces = true
  static ignoreImplicitWorkspace = false

  async exec (args) {
    return this.npm.exec('run-script', [this.constructor.name, ...args])
  }

  async execWorkspaces (args) {
    return this.npm.exec('run-script', [this.constructor.name, ...args])
  }
}

module.exports = LifecycleCmd

const cacache = require('cacache')
const pacote = require('pacote')
const fs = require('node:fs/promises')
const { join } = require('node:path')
const semver = require('semver')
const BaseCommand = require('../base-cmd.js')
const npa = require('npm-package-arg')
const jsonParse = require('json-parse-even-better-errors')
const localeCompare = require('@isaacs/string-locale-compare')('en')
const { log, output } = require('proc-log')

const searchCachePackage = async (path, parsed, cacheKeys) => {
  /* eslint-disable-next-line max-len */
  const searchMFH = new RegExp(`^make-fetch-happen:request-cache:.*(?<!/[@a-zA-Z]+)/${parsed.name}/-/(${parsed.name}[^/]+.tgz)$`)
  const searchPack = new RegExp(`^make-fetch-happen:request-cache:.*/${parsed.escapedName}$`)
  const results = new Set()
  cacheKeys = new Set(cacheKeys)
  for (const key of cacheKeys) {
    // match on the public key registry url format
    if (searchMFH.test(key)) {
      // extract the version from the filename
      const filename = key.match(searchMFH)[1]
      const noExt = filename.slice(0, -4)
      const noScope = `${parsed.name.split('/').pop()}-`
      const ver = noExt.slice(noScope.length)
      if (semver.satisfies(ver, parsed.rawSpec)) {
        results.add(key)
      }
      continue
    }
    // is this key a packument?
    if (!searchPack.test(key)) {
      continue
    }

    results.add(key)
    let packument, details
    try {
      details = await cacache.get(path, key)
      packument = jsonParse(details.data)
    } catch (_) {
      // if we couldn't parse the packument, abort
      continue
    }
    if (!packument.versions || typeof packument.versions !== 'object') {
      continue
    }

    // assuming this is a packument
    for (const ver of Object.keys(packument.versions)) {
      if (semver.satisfies(ver, parsed.rawSpec)) {
        if (packument.versions[ver].dist &&
          typeof packument.versions[ver].dist === 'object' &&
          packument.versions[ver].dist.tarball !== undefined &&
          cacheKeys.has(`make-fetch-happen:request-cache:${packument.versions[ver].dist.tarball}`)
        ) {
          results.add(`make-fetch-happen:request-cache:${packument.versions[ver].dist.tarball}`)
        }
      }
    }
  }
  return results
}

class Cache extends BaseCommand {
  static description = 'Manipulates packages cache'
  static name = 'cache'
  static params = ['cache']
  static usage = [
    'add <package-spec>',
    'clean [<key>]',
    'ls [<name>@<version>]',
    'verify',
  ]

  static async completion (opts) {
    const argv = opts.conf.argv.remain
    if (argv.length === 2) {
      return ['add', 'clean', 'verify', 'ls']
    }

    // TODO - eventually...
    switch (argv[2]) {
      case 'verify':
      case 'clean':
      case 'add':
      case 'ls':
        return []
    }
  }

  async exec (args) {
    const cmd = args.shift()
    switch (cmd) {
      case 'rm': case 'clear': case 'clean':
        return await this.clean(args)
      case 'add':
        return await this.add(args)
      case 'verify': case 'check':
        return await this.verify()
      case 'ls':
        return await this.ls(args)
      default:
        throw this.usageError()
    }
  }

  // npm cache clean [pkg]*
  async clean (args) {
    const cachePath = join(this.npm.cache, '_cacache')
    if (args.length === 0) {
      if (!this.npm.config.get('force')) {
        throw new Error(`As of npm@5, the npm cache self-heals from corruption issues
  by treating integrity mismatches as cache misses.  As a result,
  data extracted from the cache is guaranteed to be valid.  If you
  want to make sure everything is consistent, use \`npm cache verify\`
  instead.  Deleting the cache can only make npm go slower, and is
  not likely to correct any problems you may be encountering!

  On the other hand, if you're debugging an issue with the installer,
  or race conditions that depend on the timing of writing to an empty
  cache, you can use \`npm install --cache /tmp/empty-cache\` to use a
  temporary cache instead of nuking the actual one.

  If you're sure you want to delete the entire cache, rerun this command
  with --force.`)
      }
      return fs.rm(cachePath, { recursive: true, force: true })
    }
    for (const key of args) {
      let entry
      try {
        entry = await cacache.get(cachePath, key)
      } catch (err) {
        log.warn('cache', `Not Found: ${key}`)
        break
      }
      output.standard(`Deleted: ${key}`)
      await cacache.rm.entry(cachePath, key)
      // XXX this could leave other entries without content!
      await cacache.rm.content(cachePath, entry.integrity)
    }
  }

  // npm cache add <tarball-url>...
  // npm cache add <pkg> <ver>...
  // npm cache add <tarball>...
  // npm cache add <folder>...
  async add (args) {
    log.silly('cache add', 'args', args)
    if (args.length === 0) {
      throw this.usageError('First argument to `add` is required')
    }

    await Promise.all(args.map(async spec => {
      log.silly('cache add', 'spec', spec)
      // we ask pacote for the thing, and then just throw the data
      // away so that it tee-pipes it into the cache like it does
      // for a normal request.
      await pacote.tarball.stream(spec, stream => {
        stream.resume()
        return stream.promise()
      }, { ...this.npm.flatOptions })

      await pacote.manifest(spec, {
        ...this.npm.flatOptions,
        fullMetadata: true,
      })
    }))
  }

  async verify () {
    const cache = join(this.npm.cache, '_cacache')
    const prefix = cache.indexOf(process.env.HOME) === 0
      ? `~${cache.slice(process.env.HOME.length)}`
      : cache
    const stats = await cacache.verify(cache)
    output.standard(`Cache verified and compressed (${prefix})`)
    output.standard(`Content verified: ${stats.verifiedContent} (${stats.keptSize} bytes)`)
    if (stats.badContentCount) {
      output.standard(`Corrupted content removed: ${stats.badContentCount}`)
    }
    if (stats.reclaimedCount) {
      /* eslint-disable-next-line max-len */
      output.standard(`Content garbage-collected: ${stats.reclaimedCount} (${stats.reclaimedSize} bytes)`)
    }
    if (stats.missingContent) {
      output.standard(`Missing content: ${stats.missingContent}`)
    }
    output.standard(`Index entries: ${stats.totalEntries}`)
    output.standard(`Finished in ${stats.runTime.total / 1000}s`)
  }

  // npm cache ls [--package <spec> ...]
  async ls (specs) {
    const cachePath = join(this.npm.cache, '_cacache')
    const cacheKeys = Object.keys(await cacache.ls(cachePath))
    if (specs.length > 0) {
      // get results for each package spec specified
      const results = new Set()
      for (const spec of specs) {
        const parsed = npa(spec)
        if (parsed.rawSpec !== '' && parsed.type === 'tag') {
          throw this.usageError('Cannot list cache keys for a tagged package.')
        }
        const keySet = await searchCachePackage(cachePath, parsed, cacheKeys)
        for (const key of keySet) {
          results.add(key)
        }
      }
      [...results].sort(localeCompare).forEach(key => output.standard(key))
      return
    }
    cacheKeys.sort(localeCompare).forEach(key => output.standard(key))
  }
}

module.exports = Cache

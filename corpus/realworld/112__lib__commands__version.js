const { resolve } = require('node:path')
const { readFile } = require('node:fs/promises')
const { output } = require('proc-log')
const BaseCommand = require('../base-cmd.js')

class Version extends BaseCommand {
  static description = 'Bump a package version'
  static name = 'version'
  static params = [
    'allow-same-version',
    'commit-hooks',
    'git-tag-version',
    'json',
    'preid',
    'sign-git-tag',
    'workspace',
    'workspaces',
    'workspaces-update',
    'include-workspace-root',
  ]

  static workspaces = true
  static ignoreImplicitWorkspace = false

  /* eslint-disable-next-line max-len */
  static usage = ['[<newversion> | major | minor | patch | premajor | preminor | prepatch | prerelease | from-git]']

  static async completion (opts) {
    const {
      conf: {
        argv: { remain },
      },
    } = opts
    if (remain.length > 2) {
      return []
    }

    return [
      'major',
      'minor',
      'patch',
      'premajor',
      'preminor',
      'prepatch',
      'prerelease',
      'from-git',
    ]
  }

  async exec (args) {
    switch (args.length) {
      case 0:
        return this.list()
      case 1:
        return this.change(args)
      default:
        throw this.usageError()
    }
  }

  async execWorkspaces (args) {
    switch (args.length) {
      case 0:
        return this.listWorkspaces()
      case 1:
        return this.changeWorkspaces(args)
      default:
        throw this.usageError()
    }
  }

  async change (args) {
    const libnpmversion = require('libnpmversion')
    const prefix = this.npm.config.get('tag-version-prefix')
    const version = await libnpmversion(args[0], {
      ...this.npm.flatOptions,
      path: this.npm.prefix,
    })
    return output.standard(`${prefix}${version}`)
  }

  async changeWorkspaces (args) {
    const updateWorkspaces = require('../utils/update-workspaces.js')
    const libnpmversion = require('libnpmversion')
    const prefix = this.npm.config.get('tag-version-prefix')
    const {
      config,
      flatOptions,
      localPrefix,
    } = this.npm
    await this.setWorkspaces()
    const updatedWorkspaces = []
    for (const [name, path] of this.workspaces) {
      output.standard(name)
      const version = await libnpmversion(args[0], {
        ...flatOptions,
        'git-tag-version': false,
        path,
      })
      updatedWorkspaces.push(name)
      output.standard(`${prefix}${version}`)
    }
    return updateWorkspaces({
      config,
      flatOptions,
      localPrefix,
      npm: this.npm,
      workspaces: updatedWorkspaces,
    })
  }

  async list (results = {}) {
    const pj = resolve(this.npm.prefix, 'package.json')

    const pkg = await readFile(pj, 'utf8')
      .then(data => JSON.parse(data))
      .catch(() => ({}))

    if (pkg.name && pkg.version) {
      results[pkg.name] = pkg.version
    }

    results.npm = this.npm.version
    for (const [key, version] of Object.entries(process.versions)) {
      results[key] = version
    }

    if (this.npm.config.get('json')) {
      output.buffer(results)
    } else {
      output.standard(results)
    }
  }

  async listWorkspaces () {
    const results = {}
    await this.setWorkspaces()
    for (const path of this.workspacePaths) {
      const pj = resolve(path, 'package.json')
      // setWorkspaces has already parsed package.json so we know it won't error
      const pkg = await readFile(pj, 'utf8').then(data => JSON.parse(data))

      if (pkg.name && pkg.version) {
        results[pkg.name] = pkg.version
      }
    }
    return this.list(results)
  }
}

module.exports = Version

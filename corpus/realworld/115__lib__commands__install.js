const { readdir } = require('node:fs/promises')
const { resolve, join } = require('node:path')
const { log } = require('proc-log')
const runScript = require('@npmcli/run-script')
const pacote = require('pacote')
const checks = require('npm-install-checks')
const reifyFinish = require('../utils/reify-finish.js')
const ArboristWorkspaceCmd = require('../arborist-cmd.js')

class Install extends ArboristWorkspaceCmd {
  static description = 'Install a package'
  static name = 'install'

  // These are in the order they will show up in when running "-h"
  // If adding to this list, consider adding also to ci.js
  static params = [
    'save',
    'save-exact',
    'global',
    'install-strategy',
    'legacy-bundling',
    'global-style',
    'omit',
    'include',
    'strict-peer-deps',
    'prefer-dedupe',
    'package-lock',
    'package-lock-only',
    'foreground-scripts',
    'ignore-scripts',
    'audit',
    'bin-links',
    'fund',
    'dry-run',
    'cpu',
    'os',
    'libc',
    ...super.params,
  ]

  static usage = ['[<package-spec> ...]']

  static async completion (opts) {
    const { partialWord } = opts
    // install can complete to a folder with a package.json, or any package.
    // if it has a slash, then it's gotta be a folder
    // if it starts with https?://, then just give up, because it's a url
    if (/^https?:\/\//.test(partialWord)) {
      // do not complete to URLs
      return []
    }

    if (/\//.test(partialWord)) {
      // Complete fully to folder if there is exactly one match and it
      // is a folder containing a package.json file.  If that is not the
      // case we return 0 matches, which will trigger the default bash
      // complete.
      const lastSlashIdx = partialWord.lastIndexOf('/')
      const partialName = partialWord.slice(lastSlashIdx + 1)
      const partialPath = partialWord.slice(0, lastSlashIdx) || '/'

      const isDirMatch = async sibling => {
        if (sibling.slice(0, partialName.length) !== partialName) {
          return false
        }

        try {
          const contents = await readdir(join(partialPath, sibling))
          const result = (contents.indexOf('package.json') !== -1)
          return result
        } catch (er) {
          return false
        }
      }

      try {
        const siblings = await readdir(partialPath)
        const matches = []
        for (const sibling of siblings) {
          if (await isDirMatch(sibling)) {
            matches.push(sibling)
          }
        }
        if (matches.length === 1) {
          return [join(partialPath, matches[0])]
        }
        // no matches
        return []
      } catch (er) {
        return [] // invalid dir: no matching
      }
    }
    // Note: there used to be registry completion here,
    // but it stopped making sense somewhere around
    // 50,000 packages on the registry
  }

  async exec (args) {
    // the /path/to/node_modules/..
    const globalTop = resolve(this.npm.globalDir, '..')
    const ignoreScripts = this.npm.config.get('ignore-scripts')
    const isGlobalInstall = this.npm.global
    const where = isGlobalInstall ? globalTop : this.npm.prefix
    const forced = this.npm.config.get('force')
    const scriptShell = this.npm.config.get('script-shell') || undefined

    // be very strict about engines when trying to update npm itself
    const npmInstall = args.find(arg => arg.startsWith('npm@') || arg === 'npm')
    if (isGlobalInstall && npmInstall) {
      const npmOptions = this.npm.flatOptions
      const npmManifest = await pacote.manifest(npmInstall, npmOptions)
      try {
        checks.checkEngine(npmManifest, npmManifest.version, process.version)
      } catch (e) {
        if (forced) {
          log.warn(
            'install',
            /* eslint-disable-next-line max-len */
            `Forcing global npm install with incompatible version ${npmManifest.version} into node ${process.version}`
          )
        } else {
          throw e
        }
      }
    }

    // don't try to install the prefix into itself
    args = args.filter(a => resolve(a) !== this.npm.prefix)

    // `npm i -g` => "install this package globally"
    if (where === globalTop && !args.length) {
      args = ['.']
    }

    // throw usage error if trying to install empty package
    // name to global space, e.g: `npm i -g ""`
    if (where === globalTop && !args.every(Boolean)) {
      throw this.usageError()
    }

    const Arborist = require('@npmcli/arborist')
    const opts = {
      ...this.npm.flatOptions,
      auditLevel: null,
      path: where,
      add: args,
      workspaces: this.workspaceNames,
    }
    const arb = new Arborist(opts)
    await arb.reify(opts)

    if (!args.length && !isGlobalInstall && !ignoreScripts) {
      const scripts = [
        'preinstall',
        'install',
        'postinstall',
        'prepublish', // XXX(npm9) should we remove this finally??
        'preprepare',
        'prepare',
        'postprepare',
      ]
      for (const event of scripts) {
        await runScript({
          path: where,
          args: [],
          scriptShell,
          stdio: 'inherit',
          event,
        })
      }
    }
    await reifyFinish(this.npm, arb)
  }
}

module.exports = Install

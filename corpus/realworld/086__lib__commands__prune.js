const reifyFinish = require('../utils/reify-finish.js')
const ArboristWorkspaceCmd = require('../arborist-cmd.js')

// prune extraneous packages
class Prune extends ArboristWorkspaceCmd {
  static description = 'Remove extraneous packages'
  static name = 'prune'
  static params = [
    'omit',
    'include',
    'dry-run',
    'json',
    'foreground-scripts',
    'ignore-scripts',
    ...super.params,
  ]

  static usage = ['[[<@scope>/]<pkg>...]']

  async exec () {
    const where = this.npm.prefix
    const Arborist = require('@npmcli/arborist')
    const opts = {
      ...this.npm.flatOptions,
      path: where,
      workspaces: this.workspaceNames,
    }
    const arb = new Arborist(opts)
    await arb.prune(opts)
    await reifyFinish(this.npm, arb)
  }
}

module.exports = Prune

const { readdir } = require('node:fs/promises')
const { resolve } = require('node:path')
const npa = require('npm-package-arg')
const pkgJson = require('@npmcli/package-json')
const semver = require('semver')
const reifyFinish = require('../utils/reify-finish.js')
const ArboristWorkspaceCmd = require('../arborist-cmd.js')

class Link extends ArboristWorkspaceCmd {
  static description = 'Symlink a package folder'
  static name = 'link'
  static usage = [
    '[<package-spec>]',
  ]

  static params = [
    'save',
    'save-exact',
    'global',
    'install-strategy',
    'legacy-bundling',
    'global-style',
    'strict-peer-deps',
    'package-lock',
    'omit',
    'include',
    'ignore-scripts',
    'audit',
    'bin-links',
    'fund',
    'dry-run',
    ...super.params,
  ]

  static async completion (opts, npm) {
    const dir = npm.globalDir
    const files = await readdir(dir)
    return files.filter(f => !/^[._-]/.test(f))
  }

  async exec (args) {
    if (this.npm.global) {
      throw Object.assign(
        new Error(
          'link should never be --global.\n' +
          'Please re-run this command with --local'
        ),
        { code: 'ELINKGLOBAL' }
      )
    }
    // install-links is implicitly false when running `npm link`
    this.npm.config.set('install-links', false)

    // link with no args: symlink the folder to the global location
    // link with package arg: symlink the global to the local
    args = args.filter(a => resolve(a) !== this.npm.prefix)
    return args.length
      ? this.linkInstall(args)
      : this.linkPkg()
  }

  async linkInstall (args) {
    // load current packages from the global space,
    // and then add symlinks installs locally
    const globalTop = resolve(this.npm.globalDir, '..')
    const Arborist = require('@npmcli/arborist')
    const globalOpts = {
      ...this.npm.flatOptions,
      Arborist,
      path: globalTop,
      global: true,
      prune: false,
    }
    const globalArb = new Arborist(globalOpts)

    // get only current top-level packages from the global space
    const globals = await globalArb.loadActual({
      filter: (node, kid) =>
        !node.isRoot || args.some(a => npa(a).name === kid),
    })

    // any extra arg that is missing from the current
    // global space should be reified there first
    const missing = this.missingArgsFromTree(globals, args)
    if (missing.length) {
      await globalArb.reify({
        ...globalOpts,
        add: missing,
      })
    }

    // get a list of module names that should be linked in the local prefix
    const names = []
    for (const a of args) {
      const arg = npa(a)
      if (arg.type === 'directory') {
        const { content } = await pkgJson.normalize(arg.fetchSpec)
        names.push(content.name)
      } else {
        names.push(arg.name)
      }
    }

    // npm link should not save=true by default unless you're
    // using any of --save-dev or other types
    const save =
      Boolean(
        (this.npm.config.find('save') !== 'default' &&
        this.npm.config.get('save')) ||
        this.npm.config.get('save-optional') ||
        this.npm.config.get('save-peer') ||
        this.npm.config.get('save-dev') ||
        this.npm.config.get('save-prod')
      )
    // create a new arborist instance for the local prefix and
    // reify all the pending names as symlinks there
    const localArb = new Arborist({
      ...this.npm.flatOptions,
      prune: false,
      path: this.npm.prefix,
      save,
    })
    await localArb.reify({
      ...this.npm.flatOptions,
      prune: false,
      path: this.npm.prefix,
      add: names.map(l => `file:${resolve(globalTop, 'node_modules', l).replace(/#/g, '%23')}`),
      save,
      workspaces: this.workspaceNames,
    })

    await reifyFinish(this.npm, localArb)
  }

  async linkPkg () {
    const wsp = this.workspacePaths
    const paths = wsp && wsp.length ? wsp : [this.npm.prefix]
    const add = paths.map(path => `file:${path.replace(/#/g, '%23')}`)
    const globalTop = resolve(this.npm.globalDir, '..')
    const Arborist = require('@npmcli/arborist')
    const arb = new Arborist({
      ...this.npm.flatOptions,
      Arborist,
      path: globalTop,
      global: true,
    })
    await arb.reify({
      add,
    })
    await reifyFinish(this.npm, arb)
  }

  // Returns a list of items that can't be fulfilled by
  // things found in the current arborist inventory
  missingArgsFromTree (tree, args) {
    if (tree.isLink) {
      return this.missingArgsFromTree(tree.target, args)
    }

    const foundNodes = []
    const missing = args.filter(a => {
      const arg = npa(a)
      const nodes = tree.children.values()
      const argFound = [...nodes].every(node => {
        // TODO: write tests for unmatching version specs, this is hard to test
        // atm but should be simple once we have a mocked registry again
        if (arg.name !== node.name /* istanbul ignore next */ || (
          arg.version &&
          /* istanbul ignore next */
          !semver.satisfies(node.version, arg.version)
        )) {
          foundNodes.push(node)
          return true
        }
      })
      return argFound
    })

    // remote nodes from the loaded tree in order
    // to avoid dropping them later when reifying
    for (const node of foundNodes) {
      node.parent = null
    }

    return missing
  }
}

module.exports = Link

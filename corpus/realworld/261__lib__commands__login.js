const { log, output } = require('proc-log')
const { redactLog: replaceInfo } = require('@npmcli/redact')
const auth = require('../utils/auth.js')
const BaseCommand = require('../base-cmd.js')

class Login extends BaseCommand {
  static description = 'Login to a registry user account'
  static name = 'login'
  static params = [
    'registry',
    'scope',
    'auth-type',
  ]

  async exec () {
    const scope = this.npm.config.get('scope')
    let registry = this.npm.config.get('registry')

    if (scope) {
      const scopedRegistry = this.npm.config.get(`${scope}:registry`)
      const cliRegistry = this.npm.config.get('registry', 'cli')
      if (scopedRegistry && !cliRegistry) {
        registry = scopedRegistry
      }
    }

    const creds = this.npm.config.getCredentialsByURI(registry)

    log.notice('', `Log in on ${replaceInfo(registry)}`)

    const { message, newCreds } = await auth.login(this.npm, {
      ...this.npm.flatOptions,
      creds,
      registry,
    })

    this.npm.config.delete('_token', 'user') // prevent legacy pollution
    this.npm.config.setCredentialsByURI(registry, newCreds)

    if (scope) {
      this.npm.config.set(scope + ':registry', registry, 'user')
    }

    await this.npm.config.save('user')

    output.standard(message)
  }
}

module.exports = Login

const tar = require('tar')
const ssri = require('ssri')
const { log, output } = require('proc-log')
const formatBytes = require('./format-bytes.js')
const localeCompare = require('@isaacs/string-locale-compare')('en', {
  sensitivity: 'case',
  numeric: true,
})

const logTar = (tarball, { unicode = false, json, key } = {}) => {
  if (json) {
    output.buffer(key == null ? tarball : { [key]: tarball })
    return
  }
  log.notice('')
  log.notice('', `${unicode ? '📦 ' : 'package:'} ${tarball.name}@${tarball.version}`)
  log.notice('Tarball Contents')
  if (tarball.files.length) {
    log.notice(
      '',
      tarball.files.map(f =>
        /^node_modules\//.test(f.path) ? null : `${formatBytes(f.size, false)} ${f.path}`
      ).filter(f => f).join('\n')
    )
  }
  if (tarball.bundled.length) {
    log.notice('Bundled Dependencies')
    tarball.bundled.forEach(name => log.notice('', name))
  }
  log.notice('Tarball Details')
  log.notice('', `name: ${tarball.name}`)
  log.notice('', `version: ${tarball.version}`)
  if (tarball.filename) {
    log.notice('', `filename: ${tarball.filename}`)
  }
  log.notice('', `package size: ${formatBytes(tarball.size)}`)
  log.notice('', `unpacked size: ${formatBytes(tarball.unpackedSize)}`)
  log.notice('', `shasum: ${tarball.shasum}`)
  /* eslint-disable-next-line max-len */
  log.notice('', `integrity: ${tarball.integrity.toString().slice(0, 20)}[...]${tarball.integrity.toString().slice(80)}`)
  if (tarball.bundled.length) {
    log.notice('', `bundled deps: ${tarball.bundled.length}`)
    log.notice('', `bundled files: ${tarball.entryCount - tarball.files.length}`)
    log.notice('', `own files: ${tarball.files.length}`)
  }
  log.notice('', `total files: ${tarball.entryCount}`)
  log.notice('', '')
}

const getContents = async (manifest, tarball) => {
  const files = []
  const bundled = new Set()
  let totalEntries = 0
  let totalEntrySize = 0

  // reads contents of tarball
  const stream = tar.t({
    onentry (entry) {
      totalEntries++
      totalEntrySize += entry.size
      const p = entry.path
      if (p.startsWith('package/node_modules/') && p !== 'package/node_modules/') {
        const name = p.match(/^package\/node_modules\/((?:@[^/]+\/)?[^/]+)/)[1]
        bundled.add(name)
      }
      files.push({
        path: entry.path.replace(/^package\//, ''),
        size: entry.size,
        mode: entry.mode,
      })
    },
  })
  stream.end(tarball)

  const integrity = ssri.fromData(tarball, {
    algorithms: ['sha1', 'sha512'],
  })

  const comparator = ({ path: a }, { path: b }) => localeCompare(a, b)

  const isUpper = str => {
    const ch = str.charAt(0)
    return ch === ch.toUpperCase()
  }

  const uppers = files.filter(file => isUpper(file.path))
  const others = files.filter(file => !isUpper(file.path))

  uppers.sort(comparator)
  others.sort(comparator)

  const shasum = integrity.sha1[0].hexDigest()
  return {
    id: manifest._id || `${manifest.name}@${manifest.version}`,
    name: manifest.name,
    version: manifest.version,
    size: tarball.length,
    unpackedSize: totalEntrySize,
    shasum,
    integrity: ssri.parse(integrity.sha512[0]),
    // @scope/packagename.tgz => scope-packagename.tgz
    // we can safely use these global replace rules due to npm package naming rules
    filename: `${manifest.name.replace('@', '').replace('/', '-')}-${manifest.version}.tgz`,
    files: uppers.concat(others),
    entryCount: totalEntries,
    bundled: Array.from(bundled),
  }
}

module.exports = { logTar, getContents }

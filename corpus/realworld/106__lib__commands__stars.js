const fetch = require('npm-registry-fetch')
const { log, output } = require('proc-log')
const getIdentity = require('../utils/get-identity.js')
const BaseCommand = require('../base-cmd.js')

class Stars extends BaseCommand {
  static description = 'View packages marked as favorites'
  static name = 'stars'
  static usage = ['[<user>]']
  static params = ['registry']
  static ignoreImplicitWorkspace = false

  async exec ([user]) {
    try {
      if (!user) {
        user = await getIdentity(this.npm, this.npm.flatOptions)
      }

      const { rows } = await fetch.json('/-/_view/starredByUser', {
        ...this.npm.flatOptions,
        query: { key: `"${user}"` },
      })
      if (rows.length === 0) {
        log.warn('stars', 'user has not starred any packages')
      }

      for (const row of rows) {
        output.standard(row.value)
      }
    } catch (err) {
      if (err.code === 'ENEEDAUTH') {
        log.warn('stars', 'auth is required to look up your username')
      }
      throw err
    }
  }
}

module.exports = Stars

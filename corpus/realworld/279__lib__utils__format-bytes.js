// Convert bytes to printable output, for file reporting in tarballs
// Only supports up to GB because that's way larger than anything the registry
// supports anyways.

const formatBytes = (bytes, space = true) => {
  let spacer = ''
  if (space) {
    spacer = ' '
  }

  if (bytes < 1000) {
    // B
    return `${bytes}${spacer}B`
  }

  if (bytes < 1000000) {
    // kB
    return `${(bytes / 1000).toFixed(1)}${spacer}kB`
  }

  if (bytes < 1000000000) {
    // MB
    return `${(bytes / 1000000).toFixed(1)}${spacer}MB`
  }

  // GB
  return `${(bytes / 1000000000).toFixed(1)}${spacer}GB`
}

module.exports = formatBytes

const os = require('node:os')
const { join, dirname, basename } = require('node:path')
const fsMiniPass = require('fs-minipass')
const fs = require('node:fs/promises')
const { log } = require('proc-log')
const { formatWithOptions } = require('./format')

const padZero = (n, length) => n.toString().padStart(length.toString().length, '0')

class LogFiles {
  // Default to an array so we can buffer
  // initial writes before we know the cache location
  #logStream = []

  // We cap log files at a certain number of log events per file.
  // Note that each log event can write more than one line to the
  // file. Then we rotate log files once this number of events is reached
  #MAX_LOGS_PER_FILE = null

  // Now that we write logs continuously we need to have a backstop
  // here for infinite loops that still log. This is also partially handled
  // by the config.get('max-files') option, but this is a failsafe to
  // prevent runaway log file creation
  #MAX_FILES_PER_PROCESS = null

  #fileLogCount = 0
  #totalLogCount = 0
  #path = null
  #logsMax = null
  #files = []
  #timing = false

  constructor ({
    maxLogsPerFile = 50_000,
    maxFilesPerProcess = 5,
  } = {}) {
    this.#MAX_LOGS_PER_FILE = maxLogsPerFile
    this.#MAX_FILES_PER_PROCESS = maxFilesPerProcess
    this.on()
  }

  on () {
    process.on('log', this.#logHandler)
  }

  off () {
    process.off('log', this.#logHandler)
    this.#endStream()
  }

  load ({ command, path, logsMax = Infinity, timing } = {}) {
    if (['completion'].includes(command)) {
      return
    }

    // dir is user configurable and is required to exist so
    // this can error if the dir is missing or not configured correctly
    this.#path = path
    this.#logsMax = logsMax
    this.#timing = timing

    // Log stream has already ended
    if (!this.#logStream) {
      return
    }

    log.verbose('logfile', `logs-max:${logsMax} dir:${this.#path}`)

    // Write the contents of our array buffer to our new file stream and
    // set that as the new log logstream for future writes
    // if logs max is 0 then the user does not want a log file
    if (this.#logsMax > 0) {
      const initialFile = this.#openLogFile()
      if (initialFile) {
        for (const item of this.#logStream) {
          const formatted = this.#formatLogItem(...item)
          if (formatted !== null) {
            initialFile.write(formatted)
          }
        }
        this.#logStream = initialFile
      }
    }

    log.verbose('logfile', this.files[0] || 'no logfile created')

    // Kickoff cleaning process, even if we aren't writing a logfile.
    // This is async but it will always ignore the current logfile
    // Return the result so it can be awaited in tests
    return this.#cleanLogs()
  }

  get files () {
    return this.#files
  }

  get #isBuffered () {
    return Array.isArray(this.#logStream)
  }

  #endStream (output) {
    if (this.#logStream && !this.#isBuffered) {
      this.#logStream.end(output)
      this.#logStream = null
    }
  }

  #logHandler = (level, ...args) => {
    // Ignore pause and resume events since we
    // write everything to the log file
    if (level === 'pause' || level === 'resume') {
      return
    }

    // If the stream is ended then do nothing
    if (!this.#logStream) {
      return
    }

    if (this.#isBuffered) {
      // Cant do anything but buffer the output if we dont
      // have a file stream yet
      this.#logStream.push([level, ...args])
      return
    }

    const logOutput = this.#formatLogItem(level, ...args)
    if (logOutput === null) {
      return
    }

    // Open a new log file if we've written too many logs to this one
    if (this.#fileLogCount >= this.#MAX_LOGS_PER_FILE) {
      // Write last chunk to the file and close it
      this.#endStream(logOutput)
      if (this.#files.length >= this.#MAX_FILES_PER_PROCESS) {
        // but if its way too many then we just stop listening
        this.off()
      } else {
        // otherwise we are ready for a new file for the next event
        this.#logStream = this.#openLogFile()
      }
    } else {
      this.#logStream.write(logOutput)
    }
  }

  #formatLogItem (level, title, ...args) {
    // Only right timing logs to logfile if explicitly requests
    if (level === log.KEYS.timing && !this.#timing) {
      return null
    }

    this.#fileLogCount += 1
    const prefix = [this.#totalLogCount++, level, title || null]
    return formatWithOptions({ prefix, eol: os.EOL, colors: false }, ...args)
  }

  #getLogFilePath (count = '') {
    return `${this.#path}debug-${count}.log`
  }

  #openLogFile () {
    // Count in filename will be 0 indexed
    const count = this.#files.length

    try {
      // Pad with zeros so that our log files are always sorted properly
      // We never want to write files ending in `-9.log` and `-10.log` because
      // log file cleaning is done by deleting the oldest so in this example
      // `-10.log` would be deleted next
      const f = this.#getLogFilePath(padZero(count, this.#MAX_FILES_PER_PROCESS))
      // Some effort was made to make the async, but we need to write logs
      // during process.on('exit') which has to be synchronous. So in order
      // to never drop log messages, it is easiest to make it sync all the time
      // and this was measured to be about 1.5% slower for 40k lines of output
      const logStream = new fsMiniPass.WriteStreamSync(f, { flags: 'a' })
      if (count > 0) {
        // Reset file log count if we are opening
        // after our first file
        this.#fileLogCount = 0
      }
      this.#files.push(logStream.path)
      return logStream
    } catch (e) {
      // If the user has a readonly logdir then we don't want to
      // warn this on every command so it should be verbose
      log.verbose('logfile', `could not be created: ${e}`)
    }
  }

  async #cleanLogs () {
    // module to clean out the old log files
    // this is a best-effort attempt.  if a rm fails, we just
    // log a message about it and move on.  We do return a
    // Promise that succeeds when we've tried to delete everything,
    // just for the benefit of testing this function properly.

    try {
      const logPath = this.#getLogFilePath()
      const patternFileName = basename(logPath)
        // tell glob to only match digits
        .replace(/\d/g, 'd')
        // Handle the old (prior to 8.2.0) log file names which did not have a
        // counter suffix
        .replace('-.log', '')

      let files = await fs.readdir(
        dirname(logPath), {
          withFileTypes: true,
          encoding: 'utf-8',
        })
      files = files.sort((a, b) => basename(a.name).localeCompare(basename(b.name), 'en'))

      const logFiles = []

      for (const file of files) {
        if (!file.isFile()) {
          continue
        }

        const genericFileName = file.name.replace(/\d/g, 'd')
        const filePath = join(dirname(logPath), basename(file.name))

        // Always ignore the currently written files
        if (
          genericFileName.includes(patternFileName)
          && genericFileName.endsWith('.log')
          && !this.#files.includes(filePath)
        ) {
          logFiles.push(filePath)
        }
      }

      const toDelete = logFiles.length - this.#logsMax

      if (toDelete <= 0) {
        return
      }

      log.silly('logfile', `start cleaning logs, removing ${toDelete} files`)

      for (const file of logFiles.slice(0, toDelete)) {
        try {
          await fs.rm(file, { force: true })
        } catch (e) {
          log.silly('logfile', 'error removing log file', file, e)
        }
      }
    } catch (e) {
      // Disable cleanup failure warnings when log writing is disabled
      if (this.#logsMax > 0) {
        log.verbose('logfile', 'error cleaning log files', e)
      }
    } finally {
      log.silly('logfile', 'done cleaning log files')
    }
  }
}

module.exports = LogFiles

const { resolve, relative } = require('node:path')
const mapWorkspaces = require('@npmcli/map-workspaces')
const { minimatch } = require('minimatch')
const pkgJson = require('@npmcli/package-json')

// minimatch wants forward slashes only for glob patterns
const globify = pattern => pattern.split('\\').join('/')

// Returns an Map of paths to workspaces indexed by workspace name
// { foo => '/path/to/foo' }
const getWorkspaces = async (filters, { path, includeWorkspaceRoot, relativeFrom }) => {
  // TODO we need a better error to be bubbled up here if this call fails
  const { content: pkg } = await pkgJson.normalize(path)
  const workspaces = await mapWorkspaces({ cwd: path, pkg })
  let res = new Map()
  if (includeWorkspaceRoot) {
    res.set(pkg.name, path)
  }

  if (!filters.length) {
    res = new Map([...res, ...workspaces])
  }

  for (const filterArg of filters) {
    for (const [workspaceName, workspacePath] of workspaces.entries()) {
      let relativePath = relative(relativeFrom, workspacePath)
      if (filterArg.startsWith('./')) {
        relativePath = `./${relativePath}`
      }
      const relativeFilter = relative(path, filterArg)
      if (filterArg === workspaceName
        || resolve(relativeFrom, filterArg) === workspacePath
        || minimatch(relativePath, `${globify(relativeFilter)}/*`)
        || minimatch(relativePath, `${globify(filterArg)}/*`)
      ) {
        res.set(workspaceName, workspacePath)
      }
    }
  }

  if (!res.size) {
    let msg = '!'
    if (filters.length) {
      msg = `:\n ${filters.reduce(
        (acc, filterArg) => `${acc} --workspace=${filterArg}`, '')}`
    }

    throw new Error(`No workspaces found${msg}`)
  }

  return res
}

module.exports = getWorkspaces

const { resolve } = require('node:path')
const semver = require('semver')
const libnpmdiff = require('libnpmdiff')
const npa = require('npm-package-arg')
const pacote = require('pacote')
const pickManifest = require('npm-pick-manifest')
const { log, output } = require('proc-log')
const pkgJson = require('@npmcli/package-json')
const BaseCommand = require('../base-cmd.js')

class Diff extends BaseCommand {
  static description = 'The registry diff command'
  static name = 'diff'
  static usage = [
    '[...<paths>]',
  ]

  static params = [
    'diff',
    'diff-name-only',
    'diff-unified',
    'diff-ignore-all-space',
    'diff-no-prefix',
    'diff-src-prefix',
    'diff-dst-prefix',
    'diff-text',
    'global',
    'tag',
    'workspace',
    'workspaces',
    'include-workspace-root',
  ]

  static workspaces = true
  static ignoreImplicitWorkspace = false

  async exec (args) {
    const specs = this.npm.config.get('diff').filter(d => d)
    if (specs.length > 2) {
      throw this.usageError(`Can't use more than two --diff arguments.`)
    }

    // execWorkspaces may have set this already
    if (!this.prefix) {
      this.prefix = this.npm.prefix
    }

    // this is the "top" directory, one up from node_modules
    // in global mode we have to walk one up from globalDir because our
    // node_modules is sometimes under ./lib, and in global mode we're only ever
    // walking through node_modules (because we will have been given a package
    // name already)
    if (this.npm.global) {
      this.top = resolve(this.npm.globalDir, '..')
    } else {
      this.top = this.prefix
    }

    const [a, b] = await this.retrieveSpecs(specs)
    log.info('diff', { src: a, dst: b })

    const res = await libnpmdiff([a, b], {
      ...this.npm.flatOptions,
      diffFiles: args,
      where: this.top,
    })
    return output.standard(res)
  }

  async execWorkspaces (args) {
    await this.setWorkspaces()
    for (const workspacePath of this.workspacePaths) {
      this.top = workspacePath
      this.prefix = workspacePath
      await this.exec(args)
    }
  }

  // get the package name from the packument at `path`
  // throws if no packument is present OR if it does not have `name` attribute
  async packageName () {
    let name
    try {
      const { content: pkg } = await pkgJson.normalize(this.prefix)
      name = pkg.name
    } catch (e) {
      log.verbose('diff', 'could not read project dir package.json')
    }

    if (!name) {
      throw this.usageError('Needs multiple arguments to compare or run from a project dir.')
    }

    return name
  }

  async retrieveSpecs ([a, b]) {
    if (a && b) {
      const specs = await this.convertVersionsToSpecs([a, b])
      return this.findVersionsByPackageName(specs)
    }

    // no arguments, defaults to comparing cwd
    // to its latest published registry version
    if (!a) {
      const pkgName = await this.packageName()
      return [
        `${pkgName}@${this.npm.config.get('tag')}`,
        `file:${this.prefix.replace(/#/g, '%23')}`,
      ]
    }

    // single argument, used to compare wanted versions of an
    // installed dependency or to compare the cwd to a published version
    let noPackageJson
    let pkgName
    try {
      const { content: pkg } = await pkgJson.normalize(this.prefix)
      pkgName = pkg.name
    } catch (e) {
      log.verbose('diff', 'could not read project dir package.json')
      noPackageJson = true
    }

    const missingPackageJson =
      this.usageError('Needs multiple arguments to compare or run from a project dir.')

    // using a valid semver range, that means it should just diff
    // the cwd against a published version to the registry using the
    // same project name and the provided semver range
    if (semver.validRange(a)) {
      if (!pkgName) {
        throw missingPackageJson
      }
      return [
        `${pkgName}@${a}`,
        `file:${this.prefix.replace(/#/g, '%23')}`,
      ]
    }

    // when using a single package name as arg and it's part of the current
    // install tree, then retrieve the current installed version and compare
    // it against the same value `npm outdated` would suggest you to update to
    const spec = npa(a)
    if (spec.registry) {
      let actualTree
      let node
      const Arborist = require('@npmcli/arborist')
      try {
        const opts = {
          ...this.npm.flatOptions,
          path: this.top,
        }
        const arb = new Arborist(opts)
        actualTree = await arb.loadActual(opts)
        node = actualTree &&
          actualTree.inventory.query('name', spec.name)
            .values().next().value
      } catch (e) {
        log.verbose('diff', 'failed to load actual install tree')
      }

      if (!node || !node.name || !node.package || !node.package.version) {
        if (noPackageJson) {
          throw missingPackageJson
        }
        return [
          `${spec.name}@${spec.fetchSpec}`,
          `file:${this.prefix.replace(/#/g, '%23')}`,
        ]
      }

      const tryRootNodeSpec = () =>
        (actualTree && actualTree.edgesOut.get(spec.name) || {}).spec

      const tryAnySpec = () => {
        for (const edge of node.edgesIn) {
          return edge.spec
        }
      }

      const aSpec = `file:${node.realpath.replace(/#/g, '%23')}`

      // finds what version of the package to compare against, if a exact
      // version or tag was passed than it should use that, otherwise
      // work from the top of the arborist tree to find the original semver
      // range declared in the package that depends on the package.
      let bSpec
      if (spec.rawSpec !== '*') {
        bSpec = spec.rawSpec
      } else {
        const bTargetVersion =
          tryRootNodeSpec()
          || tryAnySpec()

        // figure out what to compare against,
        // follows same logic to npm outdated "Wanted" results
        const packument = await pacote.packument(spec, {
          ...this.npm.flatOptions,
          preferOnline: true,
        })
        bSpec = pickManifest(
          packument,
          bTargetVersion,
          { ...this.npm.flatOptions }
        ).version
      }

      return [
        `${spec.name}@${aSpec}`,
        `${spec.name}@${bSpec}`,
      ]
    } else if (spec.type === 'directory') {
      return [
        `file:${spec.fetchSpec.replace(/#/g, '%23')}`,
        `file:${this.prefix.replace(/#/g, '%23')}`,
      ]
    } else {
      throw this.usageError(`Spec type ${spec.type} not supported.`)
    }
  }

  async convertVersionsToSpecs ([a, b]) {
    const semverA = semver.validRange(a)
    const semverB = semver.validRange(b)

    // both specs are semver versions, assume current project dir name
    if (semverA && semverB) {
      let pkgName
      try {
        const { content: pkg } = await pkgJson.normalize(this.prefix)
        pkgName = pkg.name
      } catch (e) {
        log.verbose('diff', 'could not read project dir package.json')
      }

      if (!pkgName) {
        throw this.usageError('Needs to be run from a project dir in order to diff two versions.')
      }

      return [`${pkgName}@${a}`, `${pkgName}@${b}`]
    }

    // otherwise uses the name from the other arg to
    // figure out the spec.name of what to compare
    if (!semverA && semverB) {
      return [a, `${npa(a).name}@${b}`]
    }

    if (semverA && !semverB) {
      return [`${npa(b).name}@${a}`, b]
    }

    // no valid semver ranges used
    return [a, b]
  }

  async findVersionsByPackageName (specs) {
    let actualTree
    const Arborist = require('@npmcli/arborist')
    try {
      const opts = {
        ...this.npm.flatOptions,
        path: this.top,
      }
      const arb = new Arborist(opts)
      actualTree = await arb.loadActual(opts)
    } catch (e) {
      log.verbose('diff', 'failed to load actual install tree')
    }

    return specs.map(i => {
      const spec = npa(i)
      if (spec.rawSpec !== '*') {
        return i
      }

      const node = actualTree
        && actualTree.inventory.query('name', spec.name)
          .values().next().value

      const res = !node || !node.package || !node.package.version
        ? spec.fetchSpec
        : `file:${node.realpath.replace(/#/g, '%23')}`

      return `${spec.name}@${res}`
    })
  }
}

module.exports = Diff

const libaccess = require('libnpmaccess')
const libunpub = require('libnpmpublish').unpublish
const npa = require('npm-package-arg')
const pacote = require('pacote')
const { output, log } = require('proc-log')
const pkgJson = require('@npmcli/package-json')
const { flatten } = require('@npmcli/config/lib/definitions')
const getIdentity = require('../utils/get-identity.js')
const { otplease } = require('../utils/auth.js')
const BaseCommand = require('../base-cmd.js')

const LAST_REMAINING_VERSION_ERROR = 'Refusing to delete the last version of the package. ' +
'It will block from republishing a new version for 24 hours.\n' +
'Run with --force to do this.'

class Unpublish extends BaseCommand {
  static description = 'Remove a package from the registry'
  static name = 'unpublish'
  static params = ['dry-run', 'force', 'workspace', 'workspaces']
  static usage = ['[<package-spec>]']
  static workspaces = true
  static ignoreImplicitWorkspace = false

  static async getKeysOfVersions (name, opts) {
    const packument = await pacote.packument(name, {
      ...opts,
      spec: name,
      query: { write: true },
    })
    return Object.keys(packument.versions)
  }

  static async completion (args, npm) {
    const { partialWord, conf } = args

    if (conf.argv.remain.length >= 3) {
      return []
    }

    const opts = { ...npm.flatOptions }
    const username = await getIdentity(npm, { ...opts }).catch(() => null)
    if (!username) {
      return []
    }

    const access = await libaccess.getPackages(username, opts)
    // do a bit of filtering at this point, so that we don't need
    // to fetch versions for more than one thing, but also don't
    // accidentally unpublish a whole project
    let pkgs = Object.keys(access)
    if (!partialWord || !pkgs.length) {
      return pkgs
    }

    const pp = npa(partialWord).name
    pkgs = pkgs.filter(p => !p.indexOf(pp))
    if (pkgs.length > 1) {
      return pkgs
    }

    const versions = await Unpublish.getKeysOfVersions(pkgs[0], opts)
    if (!versions.length) {
      return pkgs
    } else {
      return versions.map(v => `${pkgs[0]}@${v}`)
    }
  }

  async exec (args, { localPrefix } = {}) {
    if (args.length > 1) {
      throw this.usageError()
    }

    // workspace mode
    if (!localPrefix) {
      localPrefix = this.npm.localPrefix
    }

    const force = this.npm.config.get('force')
    const { silent } = this.npm
    const dryRun = this.npm.config.get('dry-run')

    let spec
    if (args.length) {
      spec = npa(args[0])
      if (spec.type !== 'version' && spec.rawSpec !== '*') {
        throw this.usageError(
          'Can only unpublish a single version, or the entire project.\n' +
          'Tags and ranges are not supported.'
        )
      }
    }

    log.silly('unpublish', 'args[0]', args[0])
    log.silly('unpublish', 'spec', spec)

    if (spec?.rawSpec === '*' && !force) {
      throw this.usageError(
        'Refusing to delete entire project.\n' +
        'Run with --force to do this.'
      )
    }

    const opts = { ...this.npm.flatOptions }

    let manifest
    try {
      const { content } = await pkgJson.prepare(localPrefix)
      manifest = content
    } catch (err) {
      if (err.code === 'ENOENT' || err.code === 'ENOTDIR') {
        if (!spec) {
          // We needed a local package.json to figure out what package to
          // unpublish
          throw this.usageError()
        }
      } else {
        // folks should know if ANY local package.json had a parsing error.
        // They may be relying on `publishConfig` to be loading and we don't
        // want to ignore errors in that case.
        throw err
      }
    }

    let pkgVersion // for cli output
    if (spec) {
      pkgVersion = spec.type === 'version' ? `@${spec.rawSpec}` : ''
    } else {
      spec = npa.resolve(manifest.name, manifest.version)
      log.verbose('unpublish', manifest)
      pkgVersion = manifest.version ? `@${manifest.version}` : ''
      if (!manifest.version && !force) {
        throw this.usageError(
          'Refusing to delete entire project.\n' +
          'Run with --force to do this.'
        )
      }
    }

    // If localPrefix has a package.json with a name that matches the package
    // being unpublished, load up the publishConfig
    if (manifest?.name === spec.name && manifest.publishConfig) {
      const cliFlags = this.npm.config.data.get('cli').raw
      // Filter out properties set in CLI flags to prioritize them over
      // corresponding `publishConfig` settings
      const filteredPublishConfig = Object.fromEntries(
        Object.entries(manifest.publishConfig).filter(([key]) => !(key in cliFlags)))
      flatten(filteredPublishConfig, opts)
    }

    const versions = await Unpublish.getKeysOfVersions(spec.name, opts)
    if (versions.length === 1 && spec.rawSpec === versions[0] && !force) {
      throw this.usageError(LAST_REMAINING_VERSION_ERROR)
    }
    if (versions.length === 1) {
      pkgVersion = ''
    }

    if (!dryRun) {
      await otplease(this.npm, opts, o => libunpub(spec, o))
    }
    if (!silent) {
      output.standard(`- ${spec.name}${pkgVersion}`)
    }
  }

  async execWorkspaces (args) {
    await this.setWorkspaces()

    for (const path of this.workspacePaths) {
      await this.exec(args, { localPrefix: path })
    }
  }
}

module.exports = Unpublish

const hookApi = require('libnpmhook')
const { otplease } = require('../utils/auth.js')
const relativeDate = require('tiny-relative-date')
const { output } = require('proc-log')
const BaseCommand = require('../base-cmd.js')

class Hook extends BaseCommand {
  static description = 'Manage registry hooks'
  static name = 'hook'
  static params = [
    'registry',
    'otp',
  ]

  static usage = [
    'add <pkg> <url> <secret> [--type=<type>]',
    'ls [pkg]',
    'rm <id>',
    'update <id> <url> <secret>',
  ]

  async exec (args) {
    return otplease(this.npm, { ...this.npm.flatOptions }, (opts) => {
      switch (args[0]) {
        case 'add':
          return this.add(args[1], args[2], args[3], opts)
        case 'ls':
          return this.ls(args[1], opts)
        case 'rm':
          return this.rm(args[1], opts)
        case 'update':
        case 'up':
          return this.update(args[1], args[2], args[3], opts)
        default:
          throw this.usageError()
      }
    })
  }

  async add (pkg, uri, secret, opts) {
    const hook = await hookApi.add(pkg, uri, secret, opts)
    if (opts.json) {
      output.buffer(hook)
    } else if (opts.parseable) {
      output.standard(Object.keys(hook).join('\t'))
      output.standard(Object.keys(hook).map(k => hook[k]).join('\t'))
    } else if (!this.npm.silent) {
      output.standard(`+ ${this.hookName(hook)} ${opts.unicode ? ' ➜ ' : ' -> '} ${hook.endpoint}`)
    }
  }

  async ls (pkg, opts) {
    const hooks = await hookApi.ls({ ...opts, package: pkg })

    if (opts.json) {
      output.buffer(hooks)
    } else if (opts.parseable) {
      output.standard(Object.keys(hooks[0]).join('\t'))
      hooks.forEach(hook => {
        output.standard(Object.keys(hook).map(k => hook[k]).join('\t'))
      })
    } else if (!hooks.length) {
      output.standard("You don't have any hooks configured yet.")
    } else if (!this.npm.silent) {
      output.standard(`You have ${hooks.length} hook${hooks.length !== 1 ? 's' : ''} configured.`)

      for (const hook of hooks) {
        output.standard(`Hook ${hook.id}: ${this.hookName(hook)}`)
        output.standard(`Endpoint: ${hook.endpoint}`)
        if (hook.last_delivery) {
          /* eslint-disable-next-line max-len */
          output.standard(`Triggered ${relativeDate(hook.last_delivery)}, response code was "${hook.response_code}"\n`)
        } else {
          output.standard('Never triggered\n')
        }
      }
    }
  }

  async rm (id, opts) {
    const hook = await hookApi.rm(id, opts)
    if (opts.json) {
      output.buffer(hook)
    } else if (opts.parseable) {
      output.standard(Object.keys(hook).join('\t'))
      output.standard(Object.keys(hook).map(k => hook[k]).join('\t'))
    } else if (!this.npm.silent) {
      output.standard(`- ${this.hookName(hook)} ${opts.unicode ? ' ✘ ' : ' X '} ${hook.endpoint}`)
    }
  }

  async update (id, uri, secret, opts) {
    const hook = await hookApi.update(id, uri, secret, opts)
    if (opts.json) {
      output.buffer(hook)
    } else if (opts.parseable) {
      output.standard(Object.keys(hook).join('\t'))
      output.standard(Object.keys(hook).map(k => hook[k]).join('\t'))
    } else if (!this.npm.silent) {
      output.standard(`+ ${this.hookName(hook)} ${opts.unicode ? ' ➜ ' : ' -> '} ${hook.endpoint}`)
    }
  }

  hookName (hook) {
    return `${hook.type === 'owner' ? '~' : ''}${hook.name}`
  }
}

module.exports = Hook

const { open } = require('@npmcli/promise-spawn')
const { output, input } = require('proc-log')
const { URL } = require('node:url')
const readline = require('node:readline/promises')
const { once } = require('node:events')

const assertValidUrl = (url) => {
  try {
    if (!/^https?:$/.test(new URL(url).protocol)) {
      throw new Error()
    }
  } catch {
    throw new Error('Invalid URL: ' + url)
  }
}

const outputMsg = (json, title, url) => {
  if (json) {
    output.buffer({ title, url })
  } else {
    output.standard(`${title}:\n${url}`)
  }
}

// attempt to open URL in web-browser, print address otherwise:
const openUrl = async (npm, url, title, isFile) => {
  url = encodeURI(url)
  const browser = npm.config.get('browser')
  const json = npm.config.get('json')

  if (browser === false) {
    outputMsg(json, title, url)
    return
  }

  // We pass this in as true from the help command so we know we don't have to
  // check the protocol
  if (!isFile) {
    assertValidUrl(url)
  }

  try {
    await input.start(() => open(url, {
      command: browser === true ? null : browser,
    }))
  } catch (err) {
    if (err.code !== 127) {
      throw err
    }
    outputMsg(json, title, url)
  }
}

// Prompt to open URL in browser if possible
const openUrlPrompt = async (npm, url, title, prompt, { signal }) => {
  const browser = npm.config.get('browser')
  const json = npm.config.get('json')

  assertValidUrl(url)
  outputMsg(json, title, url)

  if (browser === false || !process.stdin.isTTY || !process.stdout.isTTY) {
    return
  }

  const rl = readline.createInterface({
    input: process.stdin,
    output: process.stdout,
  })

  try {
    await input.read(() => Promise.race([
      rl.question(prompt, { signal }),
      once(rl, 'error'),
      once(rl, 'SIGINT').then(() => {
        throw new Error('canceled')
      }),
    ]))
    rl.close()
    await openUrl(npm, url, 'Browser unavailable. Please open the URL manually')
  } catch (err) {
    rl.close()
    if (err.name !== 'AbortError') {
      throw err
    }
  }
}

// Rearrange arguments and return a function that takes the two arguments
// returned from the npm-profile methods that take an opener
const createOpener = (npm, title, prompt = 'Press ENTER to open in the browser...') =>
  (url, opts) => openUrlPrompt(npm, url, title, prompt, opts)

module.exports = {
  openUrl,
  openUrlPrompt,
  createOpener,
}
